mod addr;
mod builders;
mod common;
mod det;
mod gen_c20;
mod kv;
mod reg;
mod route;
mod staking;
mod tree;

use common::*;

fn usage() -> ! {
    eprintln!("usage: mc <C01..C20> <quick|thorough> | mc replay <path>");
    std::process::exit(2)
}

fn run(id: &str, ctx: &Ctx) -> i32 {
    match id {
        "C01" => tree::checks::run_c01(ctx),
        "C02" => tree::checks::run_c02(ctx),
        "C03" => tree::checks::run_c03(ctx),
        "C04" => tree::checks::run_c04(ctx),
        "C05" => tree::checks::run_c05(ctx),
        "C08" => tree::hist::run_c08(ctx),
        "C09" => tree::hist::run_c09(ctx),
        "C10" => tree::checks::run_c10(ctx),
        "C11" => reg::run_c11(ctx),
        "C12" => tree::hist::run_c12(ctx),
        "C13" => tree::checks::run_c13(ctx),
        "C06" => kv::run_c06(ctx),
        "C07" => kv::run_c07(ctx),
        "C14" => staking::run_c14(ctx),
        "C15" => staking::run_c15(ctx),
        "C16" => staking::run_c16(ctx),
        "C17" => route::run_c17(ctx),
        "C18" => addr::run_c18(ctx),
        "C19" => det::run_c19(ctx),
        "C20" => builders::run_c20(ctx),
        _ => machinery_error(&format!("no check for {}", id)),
    }
}

fn replay(path: &str) -> i32 {
    let s = std::fs::read_to_string(path).unwrap_or_else(|e| machinery_error(&format!("cannot read {}: {}", path, e)));
    let v: serde_json::Value = serde_json::from_str(&s).unwrap_or_else(|e| machinery_error(&format!("bad replay file: {}", e)));
    let id = v["property"].as_str().unwrap_or_else(|| machinery_error("replay file has no property")).to_string();
    let mut ctx = Ctx::new(&id, Tier::Quick);
    ctx.replay_mode = true;
    let case = &v["case"];
    match id.as_str() {
        "C02" | "C03" if case["case"]["engine"] == "envelope" => tree::envelope::replay(&ctx, case),
        "C01" | "C02" | "C03" | "C04" | "C05" | "C08" | "C09" | "C10" | "C12" | "C13" if case["engine"] == "tree" => tree::checks::replay(&ctx, case),
        "C11" => reg::replay_c11(&ctx, case),
        "C06" => kv::replay_c06(&ctx, case),
        "C07" => kv::replay_c07(&ctx, case),
        "C14" | "C15" | "C16" => staking::replay(&ctx, case),
        "C17" => route::replay_c17(&ctx, case),
        "C18" => addr::replay_c18(&ctx, case),
        "C19" => det::replay_c19(&ctx, case),
        "C20" => builders::replay_c20(&ctx, case),
        _ => {
            // a case of a stage without a single-case replayer: re-run the property's quick check
            // and keep the recorded class
            println!("replay: no single-case replayer for this case; re-running the quick check of {} and filtering for the recorded class", id);
            run(&id, &ctx);
        }
    }
    let mut classes = ctx.violation_classes();
    if let Some(want) = v["class"].as_str() {
        if classes.iter().any(|(c, _, _)| c == want) {
            classes.retain(|(c, _, _)| c == want);
        }
    }
    if classes.is_empty() {
        println!("replay: no violation reproduced for {}", path);
        0
    } else {
        for (c, n, d) in classes {
            println!("replay: reproduced class={} occurrences={}", c, n);
            println!("{}", serde_json::to_string_pretty(&d).unwrap());
        }
        println!("VIOLATION property={} replay={}", id, path);
        1
    }
}

fn main() {
    let args: Vec<String> = std::env::args().collect();
    if args.len() < 3 {
        usage();
    }
    // error values of the subject (anyhow) capture a backtrace under a global lock when these are
    // set, which serialises all worker threads; the harness never needs them
    std::env::set_var("RUST_BACKTRACE", "0");
    std::env::set_var("RUST_LIB_BACKTRACE", "0");
    install_silent_panic_hook();
    if let Ok(n) = std::env::var("VERIF_THREADS") {
        if let Ok(n) = n.parse::<usize>() {
            rayon::ThreadPoolBuilder::new().num_threads(n).build_global().ok();
        }
    }
    if args[1] == "counts" {
        use tree::prog::Grammar;
        for (name, g) in [("core", Grammar::new(1, 1, 2, 2, 10)), ("rich", Grammar::new(1, 1, 9, 8, 7)), ("dataev", Grammar::new(12, 12, 2, 3, 6)), ("funds", Grammar::new(1, 1, 1, 18, 7))] {
            let v: Vec<String> = (1..=10).filter(|n| *n <= match name { "core" => 10, "rich" => 7, "dataev" => 6, _ => 7 }).map(|n| format!("<={}:{}", n, g.count_upto(n))).collect();
            println!("{} {}", name, v.join(" "));
        }
        return;
    }
    if args[1] == "bench" {
        use std::time::Instant;
        use tree::families::*;
        let ctx = Ctx::new("C02", Tier::Quick);
        let mut st = tree::driver::TreeStats::default();
        let t0 = Instant::now();
        let starts = tree::driver::build_starts(&ctx, &|_| true, &mut st);
        println!("build_starts {:?}", t0.elapsed());
        let core = Core::new(1, 5);
        tree::driver::with_world(false, |world| {
            let ad = Addrs::of(world);
            let n = core.total();
            let (mut tr, mut tm, mut tc, mut tg) = (0f64, 0f64, 0f64, 0f64);
            for i in 0..n {
                let t = Instant::now();
                let p = std::rc::Rc::new(core.program(i, &ad));
                tg += t.elapsed().as_secs_f64();
                let t = Instant::now();
                let real = world.run_real(&starts.genesis, &p);
                tr += t.elapsed().as_secs_f64();
                let t = Instant::now();
                let model = world.run_model(&starts.genesis, &p);
                tm += t.elapsed().as_secs_f64();
                let t = Instant::now();
                let d = tree::cmp::compare(world, &starts.genesis.mstate, &p, &real, &model);
                tc += t.elapsed().as_secs_f64();
                assert!(d.is_empty());
            }
            println!("n={} gen={:.3}s real={:.3}s model={:.3}s cmp={:.3}s  cache hits={} misses={}", n, tg, tr, tm, tc, world.obs_cache_hits, world.obs_cache_misses);
        });
        return;
    }
    if args[1] == "C19-env-transcripts" {
        // the one place where the subject runs with backtraces on (nothing has captured one yet)
        std::env::set_var("RUST_BACKTRACE", "1");
        std::env::set_var("RUST_LIB_BACKTRACE", "1");
        det::print_env_transcripts();
        return;
    }
    if args[1] == "C19-digest" {
        if let Ok(n) = std::env::var("VERIF_THREADS") {
            if let Ok(n) = n.parse::<usize>() {
                rayon::ThreadPoolBuilder::new().num_threads(n).build_global().ok();
            }
        }
        det::print_digest(if args[2] == "thorough" { Tier::Thorough } else { Tier::Quick });
        return;
    }
    let code = if args[1] == "replay" {
        replay(&args[2])
    } else {
        let tier = match args[2].as_str() {
            "quick" => Tier::Quick,
            "thorough" => Tier::Thorough,
            _ => usage(),
        };
        let ctx = Ctx::new(&args[1], tier);
        // a panic of the subject that no stage caught must not end the process without a word
        match catch(|| run(&args[1], &ctx)) {
            Ok(code) => code,
            Err(p) => {
                println!("MACHINERY-ERROR uncaught panic while running {}: {}", args[1], p);
                2
            }
        }
    };
    std::process::exit(code);
}
