mod addr;
mod common;
mod kv;

use common::*;

fn usage() -> ! {
    eprintln!("usage: mc <C01..C20> <quick|thorough> | mc replay <path>");
    std::process::exit(2)
}

fn run(id: &str, ctx: &Ctx) -> i32 {
    match id {
        "C06" => kv::run_c06(ctx),
        "C07" => kv::run_c07(ctx),
        "C18" => addr::run_c18(ctx),
        _ => machinery_error(&format!("no check for {}", id)),
    }
}

fn replay(path: &str) -> i32 {
    let s = std::fs::read_to_string(path).unwrap_or_else(|e| machinery_error(&format!("cannot read {}: {}", path, e)));
    let v: serde_json::Value = serde_json::from_str(&s).unwrap_or_else(|e| machinery_error(&format!("bad replay file: {}", e)));
    let id = v["property"].as_str().unwrap_or_else(|| machinery_error("replay file has no property")).to_string();
    let mut ctx = Ctx::new(&id, Tier::Quick);
    ctx.replay_mode = true;
    let case = &v["case"];
    match id.as_str() {
        "C06" => kv::replay_c06(&ctx, case),
        "C07" => kv::replay_c07(&ctx, case),
        "C18" => addr::replay_c18(&ctx, case),
        _ => machinery_error(&format!("no replay for {}", id)),
    }
    let classes = ctx.violation_classes();
    if classes.is_empty() {
        println!("replay: no violation reproduced for {}", path);
        0
    } else {
        for (c, n, d) in classes {
            println!("replay: reproduced class={} occurrences={}", c, n);
            println!("{}", serde_json::to_string_pretty(&d).unwrap());
        }
        println!("VIOLATION property={} replay={}", id, path);
        1
    }
}

fn main() {
    let args: Vec<String> = std::env::args().collect();
    if args.len() < 3 {
        usage();
    }
    install_silent_panic_hook();
    if let Ok(n) = std::env::var("VERIF_THREADS") {
        if let Ok(n) = n.parse::<usize>() {
            rayon::ThreadPoolBuilder::new().num_threads(n).build_global().ok();
        }
    }
    let code = if args[1] == "replay" {
        replay(&args[2])
    } else {
        let tier = match args[2].as_str() {
            "quick" => Tier::Quick,
            "thorough" => Tier::Thorough,
            _ => usage(),
        };
        let ctx = Ctx::new(&args[1], tier);
        run(&args[1], &ctx)
    };
    std::process::exit(code);
}
