//! Engine E1: raw key-value stores. C06 (transactional overlay), C07 (namespaced views).

use crate::common::*;
use cosmwasm_std::testing::MockStorage;
use cosmwasm_std::{Order, Storage};
use cw_multi_test::verif::{transactional, Overlay};
use cw_multi_test::{no_init, AppBuilder};
use rayon::prelude::*;
use serde_json::{json, Value};
use std::collections::BTreeMap;
use std::sync::atomic::{AtomicU64, Ordering::Relaxed};

type Map = BTreeMap<Vec<u8>, Vec<u8>>;

fn model_range(m: &Map, start: Option<&[u8]>, end: Option<&[u8]>, order: Order) -> Vec<(Vec<u8>, Vec<u8>)> {
    let mut v: Vec<_> = m
        .iter()
        .filter(|(k, _)| start.map_or(true, |s| k.as_slice() >= s) && end.map_or(true, |e| k.as_slice() < e))
        .map(|(k, v)| (k.clone(), v.clone()))
        .collect();
    if order == Order::Descending {
        v.reverse();
    }
    v
}

fn ord_name(o: Order) -> &'static str {
    if o == Order::Ascending {
        "asc"
    } else {
        "desc"
    }
}

fn show_opt(b: Option<&[u8]>) -> Value {
    match b {
        None => Value::Null,
        Some(x) => json!(hex(x)),
    }
}

fn show_recs(r: &[(Vec<u8>, Vec<u8>)]) -> Value {
    json!(r.iter().map(|(k, v)| format!("{}={}", hex(k), show(v))).collect::<Vec<_>>())
}

// =============================================================================================
// C06

const K6: [&[u8]; 6] = [b"", b"\x00", b"a", b"a\x00", b"a\xff", b"\xff"];
const K4: [&[u8]; 4] = [b"", b"a", b"a\x00", b"\xff"];
const ABSENT: &[u8] = b"b";

struct Obs<'a> {
    ctx: &'a Ctx,
    case: &'a dyn Fn() -> Value,
    evals: u64,
    outcomes: Vec<u64>,
}

impl Obs<'_> {
    fn vio(&self, class: &str, extra: Value) {
        self.ctx.violation(class, json!({"case": (self.case)(), "observed": extra}));
    }

    /// Compares get for each key and range for each bounds pair of `store` against model `m`.
    fn compare(&mut self, what: &str, store: &dyn Storage, m: &Map, keys: &[&[u8]], bounds: &[Option<&[u8]>]) {
        for k in keys {
            self.evals += 1;
            match catch(|| store.get(k)) {
                Ok(got) => {
                    if got.as_ref() != m.get(*k) {
                        self.vio(
                            &format!("c06:get-mismatch:{}", what),
                            json!({"key": hex(k), "got": got.map(|v| show(&v)), "want": m.get(*k).map(|v| show(v))}),
                        );
                    }
                }
                Err(p) => self.vio(&format!("c06:get-panic:{}", what), json!({"key": hex(k), "panic": p})),
            }
        }
        for s in bounds {
            for e in bounds {
                for o in [Order::Ascending, Order::Descending] {
                    self.evals += 1;
                    let want = model_range(m, *s, *e, o);
                    match catch(|| store.range(*s, *e, o).collect::<Vec<_>>()) {
                        Ok(got) => {
                            self.outcomes.push(hash64(&got, 7));
                            if got != want {
                                self.vio(
                                    &format!("c06:range-mismatch:{}", what),
                                    json!({"start": show_opt(*s), "end": show_opt(*e), "order": ord_name(o),
                                           "got": show_recs(&got), "want": show_recs(&want)}),
                                );
                            }
                        }
                        Err(p) => self.vio(
                            &format!("c06:range-panic:{}", what),
                            json!({"start": show_opt(*s), "end": show_opt(*e), "order": ord_name(o), "panic": p}),
                        ),
                    }
                }
            }
        }
    }

    fn compare_full(&mut self, what: &str, store: &dyn Storage, m: &Map, keys: &[&[u8]]) {
        self.compare(what, store, m, keys, &[None]);
    }
}

fn apply_digit(store: &mut dyn Storage, m: &mut Map, key: &[u8], digit: u32, val: &[u8]) {
    match digit {
        0 => {}
        1 => {
            store.set(key, val);
            m.insert(key.to_vec(), val.to_vec());
        }
        _ => {
            store.remove(key);
            m.remove(key);
        }
    }
}

/// One configuration of an overlay stack of `depth` levels over `keys`; `idx` encodes per key
/// base ∈ {absent,present} × (untouched|set|deleted)^depth. Returns (evaluations, outcome digests).
fn c06_config(ctx: &Ctx, depth: usize, keys: &[&[u8]], idx: u64, mock_base: bool) -> (u64, Vec<u64>) {
    let per_key = 2 * 3u64.pow(depth as u32);
    // decode
    let mut digits: Vec<(bool, Vec<u32>)> = vec![];
    let mut x = idx;
    for _ in keys {
        let mut d = x % per_key;
        x /= per_key;
        let present = d % 2 == 1;
        d /= 2;
        let mut lv = vec![];
        for _ in 0..depth {
            lv.push((d % 3) as u32);
            d /= 3;
        }
        digits.push((present, lv));
    }
    let case = move || json!({"kind": "config", "depth": depth, "keys": keys.iter().map(|k| hex(k)).collect::<Vec<_>>(), "index": idx, "mock_base": mock_base});
    let mut obs = Obs { ctx, case: &case, evals: 0, outcomes: vec![] };
    let mut all_keys: Vec<&[u8]> = keys.to_vec();
    all_keys.push(ABSENT);
    let mut bounds: Vec<Option<&[u8]>> = vec![None];
    for k in &all_keys {
        bounds.push(Some(k));
    }
    // odd configuration indices write the very value the base holds ("redundant" writes)
    let vals: [&[u8]; 4] = if idx % 2 == 1 { [b"base", b"v2", b"base", b"v4"] } else { [b"v1", b"v2", b"v3", b"v4"] };

    // endings: bit i set => level i (0 = lowest overlay) is committed, else discarded
    let endings: Vec<u32> = if depth <= 2 {
        (0..(1u32 << depth)).collect()
    } else {
        vec![0b111, 0b011, 0b101, 0b000]
    };
    for (ei, ending) in endings.iter().enumerate() {
        let mut models: Vec<Map> = vec![Map::new()];
        let mut snap = SnapStorage::new();
        let mut mock = MockStorage::new();
        for (k, (present, _)) in keys.iter().zip(&digits) {
            if *present {
                snap.set(k, b"base");
                mock.set(k, b"base");
                models[0].insert(k.to_vec(), b"base".to_vec());
            }
        }
        let base: &mut dyn Storage = if mock_base { &mut mock } else { &mut snap };
        let first = ei == 0;
        let res = catch(|| {
            c06_stack(&mut obs, base, &mut models, 0, depth, keys, &digits, &vals, &all_keys, &bounds, *ending, first);
        });
        if let Err(p) = res {
            obs.vio("c06:panic", json!({"panic": p, "ending": ending}));
        }
    }
    (obs.evals, obs.outcomes)
}

/// Builds level `lvl` on top of `parent`, recurses, then ends the level per `ending`.
#[allow(clippy::too_many_arguments)]
fn c06_stack(
    obs: &mut Obs,
    parent: &mut dyn Storage,
    models: &mut Vec<Map>,
    lvl: usize,
    depth: usize,
    keys: &[&[u8]],
    digits: &[(bool, Vec<u32>)],
    vals: &[&[u8]; 4],
    all_keys: &[&[u8]],
    bounds: &[Option<&[u8]>],
    ending: u32,
    observe: bool,
) {
    if lvl == depth {
        return;
    }
    let parent_before = models[lvl].clone();
    let mut m = models[lvl].clone();
    let commit = ending & (1 << lvl) != 0;
    let pending = {
        let mut ov = Overlay::new(&*parent);
        for (k, (_, lv)) in keys.iter().zip(digits) {
            apply_digit(&mut ov, &mut m, k, lv[lvl], vals[lvl]);
        }
        models.push(m);
        if observe {
            if lvl + 1 == depth {
                obs.compare("top", &ov, &models[lvl + 1], all_keys, bounds);
            } else {
                obs.compare_full("mid-before-child", &ov, &models[lvl + 1], all_keys);
            }
        }
        c06_stack(obs, &mut ov, models, lvl + 1, depth, keys, digits, vals, all_keys, bounds, ending, observe);
        // after the child ended: this level shows its model (updated by child's commit)
        obs.compare_full("level-after-child-ended", &ov, &models[lvl + 1], all_keys);
        ov.prepare()
    };
    // while the cache was alive the parent must not have changed (checked now that we can look)
    obs.compare_full("parent-while-cache-alive", &*parent, &parent_before, all_keys);
    let top = models.pop().unwrap();
    if commit {
        pending.commit(parent);
        models[lvl] = top;
        obs.compare_full("parent-after-commit", &*parent, &models[lvl], all_keys);
    } else {
        drop(pending);
        obs.compare_full("parent-after-discard", &*parent, &models[lvl], all_keys);
    }
}

// ---- history space --------------------------------------------------------------------------

#[derive(Clone, Copy, PartialEq, Eq, Debug)]
enum HOp {
    Set(u8, u8),
    Remove(u8),
    Push,
    PopCommit,
    PopDiscard,
}

const HKEYS: [&[u8]; 3] = [b"a", b"a\x00", b"\xff"];
const HVALS: [&[u8]; 3] = [b"v1", b"v2", b"base"];

fn hop_json(o: &HOp) -> Value {
    match o {
        HOp::Set(k, v) => json!(format!("set({},{})", hex(HKEYS[*k as usize]), show(HVALS[*v as usize]))),
        HOp::Remove(k) => json!(format!("remove({})", hex(HKEYS[*k as usize]))),
        HOp::Push => json!("push"),
        HOp::PopCommit => json!("pop-commit"),
        HOp::PopDiscard => json!("pop-discard"),
    }
}

fn hop_parse(s: &str) -> HOp {
    let keyidx = |h: &str| HKEYS.iter().position(|k| hex(k) == h).unwrap() as u8;
    if s == "push" {
        HOp::Push
    } else if s == "pop-commit" {
        HOp::PopCommit
    } else if s == "pop-discard" {
        HOp::PopDiscard
    } else if let Some(r) = s.strip_prefix("set(") {
        let r = r.trim_end_matches(')');
        let (k, v) = r.split_once(',').unwrap();
        HOp::Set(keyidx(k), HVALS.iter().position(|x| show(x) == v).unwrap_or(0) as u8)
    } else if let Some(r) = s.strip_prefix("remove(") {
        HOp::Remove(keyidx(r.trim_end_matches(')')))
    } else {
        panic!("bad op {}", s)
    }
}

struct Lower<'a> {
    store: &'a dyn Storage,
    next: Option<&'a Lower<'a>>,
}

struct HRun<'a, 'b> {
    obs: Obs<'a>,
    ops: &'b [HOp],
    pos: usize,
    models: Vec<Map>,
    transitions: u64,
}

impl HRun<'_, '_> {
    fn observe(&mut self, store: &dyn Storage, lower: Option<&Lower>) {
        let keys: [&[u8]; 4] = [HKEYS[0], HKEYS[1], HKEYS[2], ABSENT];
        let top = self.models.len() - 1;
        // top: gets + a fixed family of bound pairs in both orders
        let m = self.models[top].clone();
        let bounds: [Option<&[u8]>; 4] = [None, Some(HKEYS[0]), Some(HKEYS[1]), Some(HKEYS[2])];
        self.obs.compare("hist-top", store, &m, &keys, &bounds);
        // every lower level still shows its own contents
        let mut l = lower;
        let mut i = top;
        while let Some(lw) = l {
            i -= 1;
            let m = self.models[i].clone();
            self.obs.compare_full("hist-lower", lw.store, &m, &keys);
            l = lw.next;
        }
        if i != 0 {
            self.obs.vio("c06:harness-level-mismatch", json!({"i": i}));
        }
    }

    fn run(&mut self, store: &mut dyn Storage, lower: Option<&Lower>) -> anyhow::Result<()> {
        loop {
            if self.pos >= self.ops.len() {
                return Ok(());
            }
            let op = self.ops[self.pos];
            self.pos += 1;
            self.transitions += 1;
            match op {
                HOp::Set(k, v) => {
                    store.set(HKEYS[k as usize], HVALS[v as usize]);
                    self.models.last_mut().unwrap().insert(HKEYS[k as usize].to_vec(), HVALS[v as usize].to_vec());
                }
                HOp::Remove(k) => {
                    store.remove(HKEYS[k as usize]);
                    self.models.last_mut().unwrap().remove(HKEYS[k as usize]);
                }
                HOp::Push => {
                    let top = self.models.last().unwrap().clone();
                    self.models.push(top);
                    let r = transactional(store, |cache, ro| {
                        let l = Lower { store: ro, next: lower };
                        self.observe(cache, Some(&l));
                        self.run(cache, Some(&l))
                    });
                    let top = self.models.pop().unwrap();
                    if r.is_ok() {
                        *self.models.last_mut().unwrap() = top;
                    }
                }
                HOp::PopCommit => return Ok(()),
                HOp::PopDiscard => return Err(anyhow::anyhow!("discard")),
            }
            self.observe(store, lower);
        }
    }
}

fn c06_history(ctx: &Ctx, ops: &[HOp], base_variant: u8) -> (u64, u64, Vec<u64>) {
    let case = || json!({"kind": "history", "base_variant": base_variant, "ops": ops.iter().map(hop_json).collect::<Vec<_>>()});
    let mut snap = SnapStorage::new();
    let mut mock = MockStorage::new();
    let mut m0 = Map::new();
    if base_variant != 1 {
        for k in [HKEYS[0], HKEYS[2]] {
            snap.set(k, b"base");
            mock.set(k, b"base");
            m0.insert(k.to_vec(), b"base".to_vec());
        }
    }
    let base: &mut dyn Storage = if base_variant == 2 { &mut mock } else { &mut snap };
    let mut run = HRun {
        obs: Obs { ctx, case: &case, evals: 0, outcomes: vec![] },
        ops,
        pos: 0,
        models: vec![m0],
        transitions: 0,
    };
    let r = catch(|| {
        let _ = run.run(base, None);
    });
    if let Err(p) = r {
        run.obs.vio("c06:panic", json!({"panic": p}));
    }
    (run.obs.evals, run.transitions, run.obs.outcomes)
}

fn hsymbols(nkeys: u8) -> Vec<HOp> {
    let mut v = vec![];
    for k in 0..nkeys {
        v.push(HOp::Set(k, 0));
        v.push(HOp::Set(k, 1));
        // writing back exactly the value the base holds (a "redundant" write must still shadow
        // intermediate states of the cache)
        v.push(HOp::Set(k, 2));
        v.push(HOp::Remove(k));
    }
    v.push(HOp::Push);
    v.push(HOp::PopCommit);
    v.push(HOp::PopDiscard);
    v
}

/// Enumerates all well-formed sequences (pop only inside a cache, nesting ≤ 3) of length 1..=max
/// that extend `prefix`, calling `f` on each.
fn enum_hist(syms: &[HOp], prefix: &mut Vec<HOp>, depth: usize, max: usize, f: &mut dyn FnMut(&[HOp])) {
    if !prefix.is_empty() {
        f(prefix);
    }
    if prefix.len() == max {
        return;
    }
    for s in syms {
        let nd = match s {
            HOp::Push => {
                if depth == 3 {
                    continue;
                }
                depth + 1
            }
            HOp::PopCommit | HOp::PopDiscard => {
                if depth == 0 {
                    continue;
                }
                depth - 1
            }
            _ => depth,
        };
        prefix.push(*s);
        enum_hist(syms, prefix, nd, max, f);
        prefix.pop();
    }
}

/// Empty values: whether a base accepts them is the base's business; the write-cache is an ordered
/// map with commit like for any other value. Every sequence of up to 3 operations {set k empty,
/// set k "v", remove k, set j empty} in a cache over a base that accepts empty values (three bases:
/// empty, k present, k present with an empty value), one and two cache levels: get / range of every
/// level agree with a BTreeMap, and so does the base after commit.
fn c06_empty_values(ctx: &Ctx) -> u64 {
    let ops: [(&str, &[u8], Option<&[u8]>); 4] = [("set k empty", b"k", Some(b"")), ("set k v", b"k", Some(b"v")), ("remove k", b"k", None), ("set j empty", b"j", Some(b""))];
    let mut seqs: Vec<Vec<usize>> = vec![];
    let mut layer: Vec<Vec<usize>> = vec![vec![]];
    for _ in 0..3 {
        let mut next = vec![];
        for sq in &layer {
            for i in 0..ops.len() {
                let mut x = sq.clone();
                x.push(i);
                next.push(x);
            }
        }
        seqs.extend(next.iter().cloned());
        layer = next;
    }
    let bases: Vec<Map> = vec![Map::new(), [(b"k".to_vec(), b"old".to_vec()), (b"m".to_vec(), b"mm".to_vec())].into_iter().collect(), [(b"k".to_vec(), vec![]), (b"a".to_vec(), b"aa".to_vec())].into_iter().collect()];
    let mut n = 0u64;
    for (bi, base0) in bases.iter().enumerate() {
        for sq in &seqs {
            for split in 0..=sq.len() {
                // the first `split` operations in the lower cache, the rest in a cache stacked on it
                n += 1;
                let case = || json!({"engine": "kv-overlay", "stage": "empty-values", "base": bi, "operations": sq.iter().map(|i| ops[*i].0).collect::<Vec<_>>(), "operations_in_lower_cache": split});
                let r = catch(|| {
                    let mut base = LenientStorage { data: base0.clone() };
                    let mut model = base0.clone();
                    let mut problems: Vec<String> = vec![];
                    {
                        let mut lower = Overlay::new(&base);
                        for i in &sq[..split] {
                            match ops[*i].2 {
                                Some(v) => { lower.set(ops[*i].1, v); model.insert(ops[*i].1.to_vec(), v.to_vec()); }
                                None => { lower.remove(ops[*i].1); model.remove(ops[*i].1); }
                            }
                        }
                        let pending_upper = {
                            let mut upper = Overlay::new(&lower);
                            for i in &sq[split..] {
                                match ops[*i].2 {
                                    Some(v) => { upper.set(ops[*i].1, v); model.insert(ops[*i].1.to_vec(), v.to_vec()); }
                                    None => { upper.remove(ops[*i].1); model.remove(ops[*i].1); }
                                }
                            }
                            for k in [&b"k"[..], b"j", b"m", b"a"] {
                                if upper.get(k) != model.get(k).cloned() {
                                    problems.push(format!("upper get({}) = {:?}, map says {:?}", show(k), upper.get(k), model.get(k)));
                                }
                            }
                            for order in [Order::Ascending, Order::Descending] {
                                let got: Vec<(Vec<u8>, Vec<u8>)> = upper.range(None, None, order).collect();
                                if got != model_range(&model, None, None, order) {
                                    problems.push(format!("upper range {} = {:?}", ord_name(order), got.iter().map(|(k, v)| format!("{}={}", show(k), show(v))).collect::<Vec<_>>()));
                                }
                            }
                            upper.prepare()
                        };
                        pending_upper.commit(&mut lower);
                        let got: Vec<(Vec<u8>, Vec<u8>)> = lower.range(None, None, Order::Ascending).collect();
                        if got != model_range(&model, None, None, Order::Ascending) {
                            problems.push("lower cache after the upper one was committed into it differs from the map".into());
                        }
                        let pending = lower.prepare();
                        pending.commit(&mut base);
                    }
                    if base.data != model {
                        problems.push(format!("base after commit = {:?}, map says {:?}", base.data.iter().map(|(k, v)| format!("{}={}", show(k), show(v))).collect::<Vec<_>>(), model.iter().map(|(k, v)| format!("{}={}", show(k), show(v))).collect::<Vec<_>>()));
                    }
                    problems
                });
                match r {
                    Ok(p) if p.is_empty() => {}
                    Ok(p) => ctx.violation("c06:empty-values:differs-from-ordered-map", json!({"case": case(), "differences": p})),
                    Err(p) => ctx.violation("c06:empty-values:panic", json!({"case": case(), "panic": p})),
                }
            }
        }
    }
    n
}

pub fn run_c06(ctx: &Ctx) -> i32 {
    let evals = AtomicU64::new(0);
    let states = AtomicU64::new(0);
    let transitions = AtomicU64::new(0);
    let distinct = Distinct::default();
    let sampler = Sampler::new(6, ctx.seed);
    let mut parts = vec![];

    // (a) configuration space
    let mut cfg_runs: Vec<(usize, &[&[u8]], bool)> = vec![(1, &K6[..], false), (1, &K6[..], true), (2, &K4[..], false)];
    if ctx.tier == Tier::Thorough {
        cfg_runs.push((3, &K4[..], false));
        cfg_runs.push((2, &K4[..], true));
    } else {
        // quick: depth 3 over 3 keys
        cfg_runs.push((3, &K4[..3], false));
    }
    for (depth, keys, mock) in cfg_runs {
        let per_key = 2 * 3u64.pow(depth as u32);
        let total = per_key.pow(keys.len() as u32);
        let chunk = 256u64;
        let nchunks = (total + chunk - 1) / chunk;
        (0..nchunks).into_par_iter().for_each(|c| {
            let mut le = 0u64;
            let mut louts: Vec<u64> = vec![];
            for idx in c * chunk..((c + 1) * chunk).min(total) {
                let (e, out) = c06_config(ctx, depth, keys, idx, mock);
                le += e;
                louts.extend(out);
                if louts.len() > 8192 {
                    louts.sort_unstable();
                    louts.dedup();
                }
                sampler.offer(idx ^ ((depth as u64) << 40), || {
                    json!({"kind": "config", "depth": depth, "index": idx, "keys": keys.iter().map(|k| hex(k)).collect::<Vec<_>>()})
                });
            }
            evals.fetch_add(le, Relaxed);
            distinct.extend(louts);
        });
        transitions.fetch_add(total * (keys.len() * depth) as u64, Relaxed);
        states.fetch_add(total, Relaxed);
        parts.push(json!({"part": "configurations", "depth": depth, "keys": keys.len(), "mock_base": mock, "configurations": total}));
    }

    // (b) history space
    let mut hist_runs: Vec<(u8, usize, u8)> = vec![]; // (nkeys, maxlen, base_variant)
    match ctx.tier {
        Tier::Quick => {
            hist_runs.push((3, 5, 0));
            hist_runs.push((2, 6, 0));
            hist_runs.push((2, 5, 2));
        }
        Tier::Thorough => {
            hist_runs.push((3, 6, 0));
            hist_runs.push((2, 7, 0));
            hist_runs.push((3, 5, 1));
            hist_runs.push((3, 5, 2));
            hist_runs.push((1, 9, 0));
        }
    }
    for (nkeys, maxlen, bv) in hist_runs {
        let syms = hsymbols(nkeys);
        // parallelize over 2-symbol prefixes
        let mut prefixes: Vec<(Vec<HOp>, usize)> = vec![];
        let mut p = vec![];
        enum_hist(&syms, &mut p, 0, 2, &mut |s| {
            if s.len() == 2 || maxlen < 2 {
                let d = s.iter().fold(0i32, |d, o| match o {
                    HOp::Push => d + 1,
                    HOp::PopCommit | HOp::PopDiscard => d - 1,
                    _ => d,
                });
                prefixes.push((s.to_vec(), d as usize));
            }
        });
        let nseq = AtomicU64::new(0);
        // length-1 sequences
        for s in &syms {
            if matches!(s, HOp::PopCommit | HOp::PopDiscard) {
                continue;
            }
            let (e, t, out) = c06_history(ctx, &[*s], bv);
            evals.fetch_add(e, Relaxed);
            transitions.fetch_add(t, Relaxed);
            distinct.extend(out);
            nseq.fetch_add(1, Relaxed);
        }
        prefixes.par_iter().for_each(|(pre, d)| {
            let mut p = pre.clone();
            let mut le = 0u64;
            let mut lt = 0u64;
            let mut ln = 0u64;
            let mut louts: Vec<u64> = vec![];
            enum_hist(&syms, &mut p, *d, maxlen, &mut |s| {
                let (e, t, out) = c06_history(ctx, s, bv);
                le += e;
                lt += t;
                ln += 1;
                louts.extend(out);
                if louts.len() > 4096 {
                    louts.sort_unstable();
                    louts.dedup();
                }
                sampler.offer(hash64(s_as_bytes(s).as_slice(), 3), || {
                    json!({"kind": "history", "base_variant": bv, "ops": s.iter().map(hop_json).collect::<Vec<_>>()})
                });
            });
            evals.fetch_add(le, Relaxed);
            transitions.fetch_add(lt, Relaxed);
            nseq.fetch_add(ln, Relaxed);
            distinct.extend(louts);
        });
        let n = nseq.load(Relaxed);
        states.fetch_add(n, Relaxed);
        parts.push(json!({"part": "histories", "keys": nkeys, "max_len": maxlen, "base_variant": bv, "sequences": n}));
    }

    // (c) long logs: a write-cache that already holds F pending operations (a fixed pattern over
    // the three keys), then every tail of up to T writes, then commit - at one and at two levels
    // (the inner commit feeds the outer cache). How many operations a cache has pending is a
    // dimension of its own (anything that treats its log or its map differently by size).
    {
        let fillers: Vec<usize> = ctx.tier.pick(vec![31, 33, 48], vec![15, 31, 32, 33, 40, 48, 64, 100, 200]);
        let tail_max = ctx.tier.pick(2usize, 3usize);
        let cycle = [HOp::Set(0, 0), HOp::Set(1, 1), HOp::Set(2, 0), HOp::Remove(0), HOp::Set(1, 0), HOp::Remove(2), HOp::Set(0, 1), HOp::Set(2, 1), HOp::Remove(1), HOp::Set(2, 2), HOp::Set(0, 2)];
        let writes: Vec<HOp> = hsymbols(3).into_iter().filter(|o| matches!(o, HOp::Set(..) | HOp::Remove(_))).collect();
        let mut tails: Vec<Vec<HOp>> = vec![vec![]];
        let mut layer: Vec<Vec<HOp>> = vec![vec![]];
        for _ in 0..tail_max {
            let mut next = vec![];
            for t in &layer {
                for w in &writes {
                    let mut x = t.clone();
                    x.push(*w);
                    next.push(x);
                }
            }
            tails.extend(next.iter().cloned());
            layer = next;
        }
        let mut jobs: Vec<(usize, usize, &Vec<HOp>)> = vec![];
        for f in &fillers {
            for levels in [1usize, 2] {
                for t in &tails {
                    jobs.push((*f, levels, t));
                }
            }
        }
        let nseq = AtomicU64::new(0);
        jobs.par_chunks(32).for_each(|ch| {
            let mut louts: Vec<u64> = vec![];
            for (f, levels, tail) in ch {
                let mut ops: Vec<HOp> = vec![HOp::Push; *levels];
                ops.extend((0..*f).map(|i| cycle[i % cycle.len()]));
                ops.extend(tail.iter().copied());
                ops.extend(std::iter::repeat(HOp::PopCommit).take(*levels));
                let (e, t, out) = c06_history(ctx, &ops, 0);
                evals.fetch_add(e, Relaxed);
                transitions.fetch_add(t, Relaxed);
                louts.extend(out);
                nseq.fetch_add(1, Relaxed);
            }
            distinct.extend(louts);
        });
        let n = nseq.load(Relaxed);
        states.fetch_add(n, Relaxed);
        parts.push(json!({"part": "long-logs", "pending_operations_before_the_tail": fillers, "tail_max_len": tail_max, "levels": [1, 2], "sequences": n}));
    }

    let empty_cases = c06_empty_values(ctx);
    evals.fetch_add(empty_cases, Relaxed);
    parts.push(json!({"part": "empty-values-over-a-base-that-accepts-them", "cases": empty_cases}));
    let n_states = states.load(Relaxed);
    let coverage = json!({
        "states": n_states,
        "transitions": transitions.load(Relaxed),
        "traces_validated_against_impl": n_states,
        "evaluations": evals.load(Relaxed),
        "distinct_nontrivial": distinct.len(),
        "rule": "states = overlay configurations + operation histories, each executed on the real write-cache in lock-step with an ordered-map model; evaluations = individual get/range comparisons; distinct_nontrivial = distinct range results observed",
        "exhaustive": true,
        "parts": parts,
        "alphabet": {"config_keys": K6.iter().map(|k| hex(k)).collect::<Vec<_>>(), "history_keys": HKEYS.iter().map(|k| hex(k)).collect::<Vec<_>>(),
                     "bounds": "None + every key + absent key 'b', all pairs (incl. empty, inverted, equal), both orders", "nesting": 3},
        "caps_hit": [],
        "samples": sampler.take(),
    });
    ctx.finish(
        coverage,
        vec![
            "keys outside the stated alphabet and nesting deeper than 3 are not covered".into(),
            "values are non-empty (excluded by the statement)".into(),
        ],
    )
}

fn s_as_bytes(s: &[HOp]) -> Vec<u8> {
    s.iter()
        .map(|o| match o {
            HOp::Set(k, v) => 1 + k * 3 + v,
            HOp::Remove(k) => 20 + k,
            HOp::Push => 40,
            HOp::PopCommit => 41,
            HOp::PopDiscard => 42,
        })
        .collect()
}

pub fn replay_c06(ctx: &Ctx, case: &Value) {
    let case = if case.get("case").is_some() && case.get("kind").is_none() { &case["case"] } else { case };
    match case["kind"].as_str().unwrap_or("") {
        "config" => {
            let keys: Vec<Vec<u8>> = case["keys"].as_array().unwrap().iter().map(|k| unhex(k.as_str().unwrap())).collect();
            let kr: Vec<&[u8]> = keys.iter().map(|k| k.as_slice()).collect();
            c06_config(
                ctx,
                case["depth"].as_u64().unwrap() as usize,
                &kr,
                case["index"].as_u64().unwrap(),
                case["mock_base"].as_bool().unwrap_or(false),
            );
        }
        "history" => {
            let ops: Vec<HOp> = case["ops"].as_array().unwrap().iter().map(|o| hop_parse(o.as_str().unwrap())).collect();
            c06_history(ctx, &ops, case["base_variant"].as_u64().unwrap_or(0) as u8);
        }
        k => machinery_error(&format!("unknown C06 case kind {}", k)),
    }
}

// =============================================================================================
// C07

fn enc_path(path: &[Vec<u8>]) -> Vec<u8> {
    let mut out = vec![];
    for seg in path {
        assert!(seg.len() <= 0xFFFF);
        out.push((seg.len() >> 8) as u8);
        out.push((seg.len() & 0xff) as u8);
        out.extend_from_slice(seg);
    }
    out
}

/// Smallest byte string greater than every string that starts with `p` (None if there is none).
fn successor(p: &[u8]) -> Option<Vec<u8>> {
    let mut v = p.to_vec();
    while let Some(&last) = v.last() {
        if last == 0xff {
            v.pop();
        } else {
            *v.last_mut().unwrap() += 1;
            return Some(v);
        }
    }
    None
}

fn ns_view(raw: &Map, prefix: &[u8]) -> Map {
    raw.iter()
        .filter(|(k, _)| k.starts_with(prefix))
        .map(|(k, v)| (k[prefix.len()..].to_vec(), v.clone()))
        .collect()
}

fn segments(tier: Tier) -> Vec<Vec<u8>> {
    let mut v: Vec<Vec<u8>> = vec![
        b"".to_vec(),
        b"a".to_vec(),
        b"b".to_vec(),
        b"ab".to_vec(),
        b"a\xff".to_vec(),
        b"\xff".to_vec(),
        b"\x00\x01a".to_vec(),
        // 255 x 0xFF: the encoded prefix is 00 FF FF ... FF - everything after its first byte wraps
        vec![0xff; 255],
    ];
    let _ = tier;
    v.push(vec![0xff; 65535]);
    v
}

fn paths(tier: Tier) -> Vec<Vec<Vec<u8>>> {
    let segs = segments(tier);
    let big = segs.len() - 1;
    let mut out: Vec<Vec<Vec<u8>>> = vec![vec![]];
    for s in &segs {
        out.push(vec![s.clone()]);
    }
    for (i, a) in segs.iter().enumerate() {
        for (j, b) in segs.iter().enumerate() {
            // the 65535-byte segment only in a few two-level paths (cost), never twice in quick
            if (i == big || j == big) && tier == Tier::Quick && !(i == 1 || j == 1) {
                continue;
            }
            out.push(vec![a.clone(), b.clone()]);
        }
    }
    if tier == Tier::Thorough {
        for a in &segs[..big] {
            for b in &segs[..big] {
                for c in &segs[..big] {
                    out.push(vec![a.clone(), b.clone(), c.clone()]);
                }
            }
        }
    }
    out
}

const VKEYS: [&[u8]; 4] = [b"", b"k", b"\x00\x01bk", b"\xff"];

fn path_json(p: &[Vec<u8>]) -> Value {
    json!(p
        .iter()
        .map(|s| if s.len() > 64 { format!("{}x{}", hex(&s[..1]), s.len()) } else { hex(s) })
        .collect::<Vec<_>>())
}

fn path_parse(v: &Value) -> Vec<Vec<u8>> {
    v.as_array()
        .unwrap()
        .iter()
        .map(|s| {
            let s = s.as_str().unwrap();
            if let Some((b, n)) = s.split_once('x') {
                vec![unhex(b)[0]; n.parse::<usize>().unwrap()]
            } else {
                unhex(s)
            }
        })
        .collect()
}

fn prefix_feature(path: &[Vec<u8>], prefix: &[u8]) -> &'static str {
    if path.is_empty() {
        "empty-path"
    } else if prefix.iter().all(|b| *b == 0xff) {
        "prefix-all-ff"
    } else if prefix.last() == Some(&0xff) {
        "prefix-ends-ff"
    } else {
        "ordinary-prefix"
    }
}

/// Raw-key alphabet around a prefix: well-formed keys of the path and malformed neighbours.
fn raw_alphabet(path: &[Vec<u8>], prefix: &[u8]) -> Vec<Vec<u8>> {
    let cat = |a: &[u8], b: &[u8]| {
        let mut v = a.to_vec();
        v.extend_from_slice(b);
        v
    };
    let mut v: Vec<Vec<u8>> = vec![
        prefix.to_vec(),
        cat(prefix, b"k"),
        cat(prefix, b"\xff"),
        cat(prefix, b"\x00\x01bk"),
    ];
    if !prefix.is_empty() {
        v.push(prefix[..prefix.len() - 1].to_vec()); // one byte short of the prefix
    }
    if let Some(s) = successor(prefix) {
        v.push(s.clone()); // first key above the window
        v.push(cat(&s, b"\x00"));
    }
    // sibling path: last segment extended by one byte
    if let Some(last) = path.last() {
        if last.len() < 0xFFFF {
            let mut sib = path.to_vec();
            sib.last_mut().unwrap().push(b'b');
            v.push(cat(&enc_path(&sib), b"k"));
        }
    }
    v.push(b"\x00".to_vec());
    v.push(b"\xff\xff".to_vec());
    v.sort();
    v.dedup();
    v
}

type TestApp = cw_multi_test::App<
    cw_multi_test::BankKeeper,
    cosmwasm_std::testing::MockApi,
    SnapStorage,
>;

fn app_with(raw: &Map) -> TestApp {
    let mut st = SnapStorage::new();
    st.data = raw.clone();
    AppBuilder::new().with_storage(st).build(no_init)
}

fn view<'a>(app: &'a TestApp, path: &[Vec<u8>], multi: bool) -> Box<dyn Storage + 'a> {
    if !multi && path.len() == 1 {
        app.prefixed_storage(&path[0])
    } else {
        let refs: Vec<&[u8]> = path.iter().map(|s| s.as_slice()).collect();
        app.prefixed_multilevel_storage(&refs)
    }
}

fn view_mut<'a>(app: &'a mut TestApp, path: &[Vec<u8>], multi: bool) -> Box<dyn Storage + 'a> {
    if !multi && path.len() == 1 {
        app.prefixed_storage_mut(&path[0])
    } else {
        let refs: Vec<&[u8]> = path.iter().map(|s| s.as_slice()).collect();
        app.prefixed_multilevel_storage_mut(&refs)
    }
}

struct C07Stats {
    evals: u64,
    transitions: u64,
    outcomes: Vec<u64>,
}

/// All reads through `view` compared with the window the model derives from `raw`.
#[allow(clippy::too_many_arguments)]
fn c07_reads(ctx: &Ctx, st: &mut C07Stats, case: &dyn Fn() -> Value, what: &str, feat: &str, v: &dyn Storage, raw: &Map, prefix: &[u8], full_bounds: bool) {
    let want_view = ns_view(raw, prefix);
    for k in VKEYS {
        st.evals += 1;
        match catch(|| v.get(k)) {
            Ok(got) => {
                if got.as_ref() != want_view.get(k) {
                    ctx.violation(&format!("c07:get-mismatch:{}:{}", what, feat), json!({"case": case(), "key": hex(k), "got": got.map(|x| show(&x)), "want": want_view.get(k).map(|x| show(x))}));
                }
            }
            Err(p) => ctx.violation(&format!("c07:get-panic:{}:{}", what, feat), json!({"case": case(), "key": hex(k), "panic": p})),
        }
    }
    let mut bounds: Vec<Option<&[u8]>> = vec![None];
    if full_bounds {
        for k in VKEYS {
            bounds.push(Some(k));
        }
    }
    for s in &bounds {
        for e in &bounds {
            for o in [Order::Ascending, Order::Descending] {
                st.evals += 1;
                let want = model_range(&want_view, *s, *e, o);
                match catch(|| v.range(*s, *e, o).collect::<Vec<_>>()) {
                    Ok(got) => {
                        st.outcomes.push(hash64(&got, 9));
                        if got != want {
                            let b = if s.is_none() && e.is_none() { "unbounded" } else if e.is_none() { "open-end" } else { "bounded" };
                            ctx.violation(
                                &format!("c07:range-mismatch:{}:{}:{}", what, feat, b),
                                json!({"case": case(), "start": show_opt(*s), "end": show_opt(*e), "order": ord_name(o), "got": show_recs(&got), "want": show_recs(&want)}),
                            );
                        }
                    }
                    Err(p) => ctx.violation(
                        &format!("c07:range-panic:{}:{}", what, feat),
                        json!({"case": case(), "start": show_opt(*s), "end": show_opt(*e), "order": ord_name(o), "panic": p}),
                    ),
                }
                // the keys-only and values-only listings of the same view (what cw-storage-plus `keys()` uses)
                match catch(|| (v.range_keys(*s, *e, o).collect::<Vec<_>>(), v.range_values(*s, *e, o).collect::<Vec<_>>())) {
                    Ok((ks, vs)) => {
                        let wk: Vec<Vec<u8>> = want.iter().map(|r| r.0.clone()).collect();
                        let wv: Vec<Vec<u8>> = want.iter().map(|r| r.1.clone()).collect();
                        if ks != wk || vs != wv {
                            ctx.violation(
                                &format!("c07:keys-or-values-only-listing-mismatch:{}:{}", what, feat),
                                json!({"case": case(), "start": show_opt(*s), "end": show_opt(*e), "order": ord_name(o), "got_keys": ks.iter().map(|k| hex(k)).collect::<Vec<_>>(), "got_values": vs.iter().map(|k| hex(k)).collect::<Vec<_>>(), "want": show_recs(&want)}),
                            );
                        }
                    }
                    Err(p) => ctx.violation(
                        &format!("c07:keys-only-listing-panic:{}:{}", what, feat),
                        json!({"case": case(), "start": show_opt(*s), "end": show_opt(*e), "order": ord_name(o), "panic": p}),
                    ),
                }
            }
        }
    }
}

#[derive(Clone, Copy, Debug)]
enum VOp {
    Set(u8, u8),
    Remove(u8),
}

fn vop_json(o: &VOp) -> Value {
    match o {
        VOp::Set(k, v) => json!(format!("set({},w{})", hex(VKEYS[*k as usize]), v)),
        VOp::Remove(k) => json!(format!("remove({})", hex(VKEYS[*k as usize]))),
    }
}

fn vop_parse(s: &str) -> VOp {
    let keyidx = |h: &str| VKEYS.iter().position(|k| hex(k) == h).unwrap() as u8;
    if let Some(r) = s.strip_prefix("set(") {
        let (k, v) = r.trim_end_matches(')').split_once(",w").unwrap();
        VOp::Set(keyidx(k), v.parse().unwrap())
    } else {
        VOp::Remove(keyidx(s.strip_prefix("remove(").unwrap().trim_end_matches(')')))
    }
}

fn related_paths(path: &[Vec<u8>]) -> Vec<Vec<Vec<u8>>> {
    let mut v: Vec<Vec<Vec<u8>>> = vec![vec![]];
    if !path.is_empty() {
        v.push(path[..path.len() - 1].to_vec()); // parent
        let mut sib = path.to_vec();
        if sib.last().unwrap().len() < 0xFFFF {
            sib.last_mut().unwrap().push(b'b');
            v.push(sib);
        }
        let mut sib2 = path.to_vec();
        *sib2.last_mut().unwrap() = b"zz".to_vec();
        v.push(sib2);
    }
    let mut child = path.to_vec();
    child.push(b"b".to_vec());
    v.push(child);
    let mut child2 = path.to_vec();
    child2.push(b"".to_vec());
    v.push(child2);
    v.push(vec![b"wasm".to_vec()]);
    v.retain(|p| p.as_slice() != path);
    v.sort();
    v.dedup();
    v
}

/// One C07 case: raw base content, a path, a sequence of writes through the view.
fn c07_case(ctx: &Ctx, st: &mut C07Stats, path: &[Vec<u8>], multi: bool, raw0: &Map, ops: &[VOp]) {
    let prefix = enc_path(path);
    let feat = prefix_feature(path, &prefix);
    let case = || {
        json!({"path": path_json(path), "multi": multi,
               "raw": raw0.iter().map(|(k, v)| format!("{}={}", if k.len() > 80 { format!("{}..(len {})", hex(&k[..4]), k.len()) } else { hex(k) }, show(v))).collect::<Vec<_>>(),
               "raw_keys_hex": raw0.keys().map(|k| if k.len() > 80 { json!({"prefix_plus": hex(&k[prefix.len().min(k.len())..]), "short_by": prefix.len().saturating_sub(k.len())}) } else { json!(hex(k)) }).collect::<Vec<_>>(),
               "ops": ops.iter().map(vop_json).collect::<Vec<_>>()})
    };
    let mut app = app_with(raw0);
    let mut raw = raw0.clone();
    // reads on the untouched base (full bound set)
    {
        let v = view(&app, path, multi);
        c07_reads(ctx, st, &case, "read", feat, v.as_ref(), &raw, &prefix, true);
    }
    // read-only views refuse writes and leave the store unchanged
    if ops.is_empty() {
        // (w = 2, 3: every entry the view shows is written again with its own value, and removed -
        // a write that would change nothing is a write all the same)
        // (a view whose iteration panics is judged by the reads above; nothing to rewrite then)
        let shown: Vec<(Vec<u8>, Vec<u8>)> = catch(|| view(&app, path, multi).range(None, None, Order::Ascending).collect()).unwrap_or_default();
        for w in 0..4 {
            if w >= 2 && shown.is_empty() {
                continue;
            }
            st.evals += 1;
            let before = app.storage().data.clone();
            let r = catch(|| {
                let mut v = view(&app, path, multi);
                match w {
                    0 => v.set(b"k", b"x"),
                    1 => v.remove(b"k"),
                    2 => {
                        // all of them must be refused: stop at the first one that is
                        for (k, val) in &shown {
                            v.set(k, val);
                        }
                    }
                    _ => v.remove(&shown[0].0),
                }
            });
            let after = &app.storage().data;
            if r.is_ok() && *after != before {
                ctx.violation("c07:readonly-view-wrote", json!({"case": case(), "write": w}));
            }
            if *after != before {
                ctx.violation("c07:readonly-view-changed-store", json!({"case": case(), "write": w}));
            }
            if r.is_ok() {
                // accepted silently without effect is not "rejecting"
                ctx.violation("c07:readonly-view-accepted-write", json!({"case": case(), "write": w}));
            }
        }
    }
    for (i, op) in ops.iter().enumerate() {
        st.transitions += 1;
        let r = catch(|| {
            let mut v = view_mut(&mut app, path, multi);
            match op {
                VOp::Set(k, w) => v.set(VKEYS[*k as usize], format!("w{}", w).as_bytes()),
                VOp::Remove(k) => v.remove(VKEYS[*k as usize]),
            }
        });
        match op {
            VOp::Set(k, w) => {
                let mut rk = prefix.clone();
                rk.extend_from_slice(VKEYS[*k as usize]);
                raw.insert(rk, format!("w{}", w).into_bytes());
            }
            VOp::Remove(k) => {
                let mut rk = prefix.clone();
                rk.extend_from_slice(VKEYS[*k as usize]);
                raw.remove(&rk);
            }
        }
        if let Err(p) = r {
            ctx.violation(&format!("c07:write-panic:{}", feat), json!({"case": case(), "step": i, "panic": p}));
            return;
        }
        // raw store: exactly the modelled raw key changed, nothing else
        st.evals += 1;
        if app.storage().data != raw {
            ctx.violation(&format!("c07:raw-diff-after-write:{}", feat), json!({"case": case(), "step": i,
                "got": show_recs(&app.storage().dump()), "want": show_recs(&raw.iter().map(|(k, v)| (k.clone(), v.clone())).collect::<Vec<_>>())}));
            return;
        }
        // the view itself, and every related view, show their windows of the new raw content
        {
            let v = view_mut(&mut app, path, multi);
            c07_reads(ctx, st, &case, "read-via-mut", feat, v.as_ref(), &raw, &prefix, i + 1 == ops.len());
        }
        if i + 1 == ops.len() {
            for q in related_paths(path) {
                let qp = enc_path(&q);
                let qfeat = prefix_feature(&q, &qp);
                let v = view(&app, &q, true);
                let qcase = || json!({"written_through": case(), "read_through": path_json(&q)});
                c07_reads(ctx, st, &qcase, "other-view", qfeat, v.as_ref(), &raw, &qp, false);
            }
        }
    }
}

/// Segments at and beyond the 16-bit length limit of the encoding (0xFFFF, 0x10000, 0x10003
/// bytes), alone and below a short first segment, single- and multi-level: opening such a view may
/// be refused (a panic: there is no encoding for it), but a view that does open must be a window of
/// its own - a value written through it is seen by no view of an unrelated path, and lands under
/// a raw key that starts with the encoding of the short first segment only if that segment is
/// part of the path.
fn long_segment_stage(ctx: &Ctx) -> u64 {
    let mut n = 0u64;
    for len in [0xFFFFusize, 0x10000, 0x10003] {
        for fill in [b'a', 0x07u8] {
            let mut seg = b"abc".to_vec();
            seg.extend(std::iter::repeat(fill).take(len - 3));
            for (shape, path, multi) in [("single-level", vec![seg.clone()], false), ("multi-level, one segment", vec![seg.clone()], true), ("multi-level, second segment", vec![b"top".to_vec(), seg.clone()], true)] {
                n += 1;
                let case = json!({"engine": "kv-prefix", "stage": "long-segment", "segment_length": len, "fill_byte": fill, "shape": shape});
                let mut app = app_with(&Map::new());
                let opened = catch(|| {
                    let mut v = view_mut(&mut app, &path, multi);
                    v.set(b"k", b"v");
                });
                if opened.is_err() {
                    // refused: nothing may have been written
                    if !app.storage().data.is_empty() {
                        ctx.violation("c07:long-segment:refused-view-wrote", json!({"case": case, "raw_keys": app.storage().data.len()}));
                    }
                    continue;
                }
                if len > 0xFFFF {
                    // no two-byte length can describe the segment: whatever key was written, unrelated views must not see it
                }
                let raw: Vec<Vec<u8>> = app.storage().data.keys().cloned().collect();
                if raw.len() != 1 {
                    ctx.violation("c07:long-segment:not-exactly-one-raw-key", json!({"case": case, "raw_keys": raw.len()}));
                    continue;
                }
                // unrelated paths: every short prefix of the segment as a path of its own, the empty
                // segment, and (below "top") the same
                let mut unrelated: Vec<(Vec<Vec<u8>>, bool)> = vec![];
                for cut in [0usize, 1, 2, 3, 4] {
                    let short = seg[..cut].to_vec();
                    if path.len() == 1 {
                        unrelated.push((vec![short.clone()], false));
                        unrelated.push((vec![short.clone()], true));
                        unrelated.push((vec![short.clone(), vec![]], true));
                    } else {
                        unrelated.push((vec![b"top".to_vec(), short.clone()], true));
                        unrelated.push((vec![short.clone()], true));
                    }
                }
                for (q, qmulti) in &unrelated {
                    n += 1;
                    let seen: Vec<(Vec<u8>, Vec<u8>)> = match catch(|| view(&app, q, *qmulti).range(None, None, Order::Ascending).collect::<Vec<_>>()) {
                        Ok(v) => v,
                        Err(_) => continue,
                    };
                    if !seen.is_empty() {
                        ctx.violation("c07:long-segment:visible-in-unrelated-view", json!({"case": case, "unrelated_path": path_json(q), "unrelated_multi": qmulti, "entries_seen": seen.len(), "first_key_length": seen[0].0.len()}));
                    }
                }
                // and the view reads back its own value
                let back = catch(|| view(&app, &path, multi).get(b"k"));
                if back != Ok(Some(b"v".to_vec())) {
                    ctx.violation("c07:long-segment:own-value-lost", json!({"case": case}));
                }
            }
        }
    }
    n
}

/// A base store that accepts empty values (the trait leaves that to the implementation).
#[derive(Default)]
struct LenientStorage {
    data: Map,
}
impl Storage for LenientStorage {
    fn get(&self, key: &[u8]) -> Option<Vec<u8>> {
        self.data.get(key).cloned()
    }
    fn range<'a>(&'a self, start: Option<&[u8]>, end: Option<&[u8]>, order: Order) -> Box<dyn Iterator<Item = (Vec<u8>, Vec<u8>)> + 'a> {
        Box::new(model_range(&self.data, start, end, order).into_iter())
    }
    fn set(&mut self, key: &[u8], value: &[u8]) {
        self.data.insert(key.to_vec(), value.to_vec());
    }
    fn remove(&mut self, key: &[u8]) {
        self.data.remove(key);
    }
}

/// The value is not the view's business: writing an EMPTY value through a view is a `set` of the
/// raw key like any other. Over a base that refuses empty values the refusal (a panic) comes
/// through and nothing changes; over a base that accepts them the raw key holds the empty value
/// and the view shows it.
fn empty_value_stage(ctx: &Ctx, all_paths: &[Vec<Vec<u8>>]) -> u64 {
    let mut n = 0u64;
    for path in all_paths {
        if path.iter().any(|s| s.len() > 1000) {
            continue;
        }
        let prefix = enc_path(path);
        for multi in [false, true] {
            if !multi && path.len() != 1 {
                continue;
            }
            for present in [false, true] {
                let mut rawkey = prefix.clone();
                rawkey.extend_from_slice(b"k");
                let mut base = Map::new();
                base.insert(b"\x00other".to_vec(), b"o".to_vec());
                if present {
                    base.insert(rawkey.clone(), b"old".to_vec());
                }
                let case = json!({"engine": "kv-prefix", "stage": "empty-value", "path": path_json(path), "multi": multi, "key_present_before": present});
                // (1) refusing base
                n += 1;
                let mut app = app_with(&base);
                let r = catch(|| view_mut(&mut app, path, multi).set(b"k", b""));
                if r.is_ok() || app.storage().data != base {
                    ctx.violation("c07:empty-value:not-a-set-of-the-raw-key", json!({"case": case, "base": "refuses empty values (panics)", "view_set_panicked": r.is_err(), "raw_store_changed": app.storage().data != base}));
                }
                // (2) accepting base
                n += 1;
                let mut lapp: cw_multi_test::App<cw_multi_test::BankKeeper, cosmwasm_std::testing::MockApi, LenientStorage> = AppBuilder::new().with_storage(LenientStorage { data: base.clone() }).build(no_init);
                let refs: Vec<&[u8]> = path.iter().map(|s| s.as_slice()).collect();
                let r = catch(|| {
                    if multi {
                        lapp.prefixed_multilevel_storage_mut(&refs).set(b"k", b"")
                    } else {
                        lapp.prefixed_storage_mut(&path[0]).set(b"k", b"")
                    }
                });
                let mut want = base.clone();
                want.insert(rawkey.clone(), vec![]);
                let got_view = catch(|| if multi { lapp.prefixed_multilevel_storage(&refs).get(b"k") } else { lapp.prefixed_storage(&path[0]).get(b"k") });
                if r.is_err() || lapp.storage().data != want || got_view != Ok(Some(vec![])) {
                    ctx.violation("c07:empty-value:not-a-set-of-the-raw-key", json!({"case": case, "base": "accepts empty values", "view_set_panicked": r.is_err(), "raw_key_holds_empty_value": lapp.storage().data.get(&rawkey) == Some(&vec![]), "view_get": format!("{:?}", got_view)}));
                }
            }
        }
    }
    n
}

/// One view OBJECT used for several operations in a row (a contract's `deps.storage` is one object
/// for a whole call): every sequence of up to 3 operations {set k v (the value already there),
/// set k w, set j x, remove k} followed by reads of k and j and a scan, all through the same
/// mutable view; the view's answers and the raw store afterwards are those of the window.
fn reused_view_stage(ctx: &Ctx, all_paths: &[Vec<Vec<u8>>]) -> u64 {
    let ops: [(&str, &[u8], Option<&[u8]>); 4] = [("set k v (unchanged)", b"k", Some(b"v")), ("set k w", b"k", Some(b"w")), ("set j x", b"j", Some(b"x")), ("remove k", b"k", None)];
    let mut seqs: Vec<Vec<usize>> = vec![];
    let mut layer: Vec<Vec<usize>> = vec![vec![]];
    for _ in 0..3 {
        let mut next = vec![];
        for sq in &layer {
            for i in 0..ops.len() {
                let mut x = sq.clone();
                x.push(i);
                next.push(x);
            }
        }
        seqs.extend(next.iter().cloned());
        layer = next;
    }
    let mut n = 0u64;
    for path in all_paths.iter().filter(|p| !p.is_empty() && p.iter().all(|s| s.len() < 300)) {
        let prefix = enc_path(path);
        for multi in [false, true] {
            if !multi && path.len() != 1 {
                continue;
            }
            for sq in &seqs {
                n += 1;
                let key = |k: &[u8]| { let mut r = prefix.clone(); r.extend_from_slice(k); r };
                let mut base = Map::new();
                base.insert(key(b"k"), b"v".to_vec());
                base.insert(b"\x00outside".to_vec(), b"o".to_vec());
                let mut model = base.clone();
                let mut app = app_with(&base);
                let case = json!({"engine": "kv-prefix", "stage": "one-view-object", "path": path_json(path), "multi": multi, "operations": sq.iter().map(|i| ops[*i].0).collect::<Vec<_>>()});
                let r = catch(|| {
                    let mut problems: Vec<String> = vec![];
                    let mut v = view_mut(&mut app, path, multi);
                    for i in sq {
                        match ops[*i].2 {
                            Some(val) => { v.set(ops[*i].1, val); model.insert(key(ops[*i].1), val.to_vec()); }
                            None => { v.remove(ops[*i].1); model.remove(&key(ops[*i].1)); }
                        }
                    }
                    for k in [&b"k"[..], b"j"] {
                        if v.get(k) != model.get(&key(k)).cloned() {
                            problems.push(format!("get({}) through the same view = {:?}", show(k), v.get(k).map(|x| show(&x))));
                        }
                    }
                    let scan: Vec<(Vec<u8>, Vec<u8>)> = v.range(None, None, Order::Ascending).collect();
                    let want: Vec<(Vec<u8>, Vec<u8>)> = ns_view(&model, &prefix).into_iter().collect();
                    if scan != want {
                        problems.push(format!("scan through the same view lists {} entries, the window has {}", scan.len(), want.len()));
                    }
                    problems
                });
                match r {
                    Ok(mut p) => {
                        if app.storage().data != model {
                            p.push("the raw store differs from the window model".into());
                        }
                        if !p.is_empty() {
                            ctx.violation("c07:one-view-object:differs-from-window", json!({"case": case, "differences": p}));
                        }
                    }
                    Err(p) => ctx.violation("c07:one-view-object:panic", json!({"case": case, "panic": p})),
                }
            }
        }
    }
    n
}

pub fn run_c07(ctx: &Ctx) -> i32 {
    let all_paths = paths(ctx.tier);
    let sampler = Sampler::new(6, ctx.seed);
    let distinct = Distinct::default();
    let evals = AtomicU64::new(0);
    let transitions = AtomicU64::new(0);
    let states = AtomicU64::new(0);

    // model self-check: the encoding is prefix-free on the path alphabet, i.e. windows of two
    // paths overlap only when one path extends the other (checked on the model, then on the code
    // through the "other-view" reads above).
    let mut pair_checks = 0u64;
    for p in &all_paths {
        for q in &all_paths {
            pair_checks += 1;
            let (ep, eq) = (enc_path(p), enc_path(q));
            let related = p.starts_with(q) || q.starts_with(p);
            let overlap = ep.starts_with(&eq) || eq.starts_with(&ep);
            if overlap && !related {
                ctx.violation("c07:encoding-not-prefix-free", json!({"p": path_json(p), "q": path_json(q)}));
            }
        }
    }

    let max_ops = ctx.tier.pick(2usize, 3usize);
    // write sequences
    let mut seqs: Vec<Vec<VOp>> = vec![vec![]];
    let syms: Vec<VOp> = {
        let mut s = vec![];
        for k in 0..VKEYS.len() as u8 {
            s.push(VOp::Set(k, 1));
            s.push(VOp::Remove(k));
        }
        s.push(VOp::Set(1, 2));
        s
    };
    let mut frontier: Vec<Vec<VOp>> = vec![vec![]];
    for _ in 0..max_ops {
        let mut next = vec![];
        for f in &frontier {
            for s in &syms {
                let mut n = f.clone();
                n.push(*s);
                next.push(n);
            }
        }
        seqs.extend(next.iter().cloned());
        frontier = next;
    }

    all_paths.par_iter().enumerate().for_each(|(pi, path)| {
        let prefix = enc_path(path);
        let alpha = raw_alphabet(path, &prefix);
        let big = prefix.len() > 1000;
        let mut st = C07Stats { evals: 0, transitions: 0, outcomes: vec![] };
        let mut nstates = 0u64;
        let multis: &[bool] = if path.len() == 1 { &[false, true] } else { &[true] };
        for &multi in multis {
            // (1) every subset of the raw alphabet, reads only
            let n = alpha.len().min(if big { 7 } else { 12 });
            for mask in 0u32..(1u32 << n) {
                let mut raw = Map::new();
                for (i, k) in alpha.iter().take(n).enumerate() {
                    if mask & (1 << i) != 0 {
                        raw.insert(k.clone(), format!("r{}", i).into_bytes());
                    }
                }
                c07_case(ctx, &mut st, path, multi, &raw, &[]);
                nstates += 1;
                if mask % 97 == 0 {
                    sampler.offer(((pi as u64) << 20) | mask as u64, || json!({"path": path_json(path), "multi": multi, "raw_subset_mask": mask, "raw_alphabet": alpha.iter().take(n).map(|k| if k.len() > 80 { format!("len{}", k.len()) } else { hex(k) }).collect::<Vec<_>>(), "ops": []}));
                }
            }
            // (2) write sequences from a few bases (empty, full alphabet, neighbours only)
            let mut bases: Vec<Map> = vec![Map::new()];
            let mut full = Map::new();
            for (i, k) in alpha.iter().enumerate() {
                full.insert(k.clone(), format!("r{}", i).into_bytes());
            }
            let neigh: Map = full.iter().filter(|(k, _)| !k.starts_with(&prefix)).map(|(k, v)| (k.clone(), v.clone())).collect();
            bases.push(full);
            bases.push(neigh);
            let seqs_here: &[Vec<VOp>] = if big { &seqs[..seqs.len().min(1 + syms.len())] } else { &seqs };
            for b in &bases {
                for s in seqs_here {
                    if s.is_empty() {
                        continue;
                    }
                    c07_case(ctx, &mut st, path, multi, b, s);
                    nstates += 1;
                }
            }
        }
        evals.fetch_add(st.evals, Relaxed);
        transitions.fetch_add(st.transitions.max(1), Relaxed);
        states.fetch_add(nstates, Relaxed);
        st.outcomes.sort_unstable();
        st.outcomes.dedup();
        distinct.extend(st.outcomes);
    });

    let long_checks = long_segment_stage(ctx);
    evals.fetch_add(long_checks, Relaxed);
    let empty_value_checks = empty_value_stage(ctx, &all_paths);
    evals.fetch_add(empty_value_checks, Relaxed);
    let reused_view_checks = reused_view_stage(ctx, &all_paths);
    evals.fetch_add(reused_view_checks, Relaxed);
    let coverage = json!({
        "states": states.load(Relaxed),
        "transitions": transitions.load(Relaxed),
        "traces_validated_against_impl": states.load(Relaxed),
        "evaluations": evals.load(Relaxed),
        "distinct_nontrivial": distinct.len(),
        "long_segment_checks": long_checks, "empty_value_checks": empty_value_checks, "one_view_object_checks": reused_view_checks,
        "rule": "states = (namespace path, raw base content, write sequence) cases run through App::prefixed_*storage* views over a raw store; evaluations = individual get/range/raw-diff comparisons against the prefix-filter model; distinct_nontrivial = distinct range results",
        "exhaustive": true,
        "paths": all_paths.len(),
        "path_pairs_checked_prefix_free": pair_checks,
        "write_sequences_per_base": seqs.len() - 1,
        "alphabet": {"segments": ["", "a", "b", "ab", "a\\xff", "\\xff", "\\x00\\x01a", "\\xff x 255", "\\xff x 65535"], "view_keys": VKEYS.iter().map(|k| hex(k)).collect::<Vec<_>>(),
                     "raw": "every subset of: prefix, prefix+k, prefix+ff, prefix+child-namespace-key, prefix minus one byte, successor(prefix), successor+00, sibling-path key, 00, ffff"},
        "caps_hit": [],
        "samples": sampler.take(),
    });
    ctx.finish(
        coverage,
        vec!["segments and keys outside the stated alphabet are not covered; paths of more than 3 segments are not covered".into()],
    )
}

pub fn replay_c07(ctx: &Ctx, case: &Value) {
    let mut c = case;
    while c.get("case").is_some() && c.get("path").is_none() {
        c = &c["case"];
    }
    if c.get("written_through").is_some() {
        c = &c["written_through"];
    }
    let path = path_parse(&c["path"]);
    let prefix = enc_path(&path);
    let mut raw = Map::new();
    for (i, k) in c["raw_keys_hex"].as_array().cloned().unwrap_or_default().iter().enumerate() {
        let key = if let Some(s) = k.as_str() {
            unhex(s)
        } else {
            let short = k["short_by"].as_u64().unwrap() as usize;
            let mut v = prefix[..prefix.len() - short].to_vec();
            v.extend_from_slice(&unhex(k["prefix_plus"].as_str().unwrap()));
            v
        };
        raw.insert(key, format!("r{}", i).into_bytes());
    }
    let ops: Vec<VOp> = c["ops"].as_array().cloned().unwrap_or_default().iter().map(|o| vop_parse(o.as_str().unwrap())).collect();
    let mut st = C07Stats { evals: 0, transitions: 0, outcomes: vec![] };
    c07_case(ctx, &mut st, &path, c["multi"].as_bool().unwrap_or(true), &raw, &ops);
}
