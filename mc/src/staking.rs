//! Engine E3 (staking): C14 (delegation / unbonding accounting), C15 (rewards), C16 (slashing).
//! Layered BFS over staking histories on the real App; the oracle is a per-transition relation
//! between the observed pre-state, a hidden exact-rational model and the observed post-state.
//! Where the statements leave a tolerance the oracle is an interval.

use crate::common::*;
use cosmwasm_std::testing::{mock_env, MockApi};
use cosmwasm_std::{coin, Addr, BlockInfo, Decimal, DistributionMsg, StakingMsg, Validator};
use cw_multi_test::{App, AppBuilder, BankKeeper, Executor, StakingInfo, StakingSudo, SudoMsg};
use num_bigint::BigInt;
use num_integer::Integer;
use num_traits::{One, Signed, ToPrimitive, Zero};
use rayon::prelude::*;
use serde_json::{json, Value};
use std::collections::BTreeMap;

type SApp = App<BankKeeper, MockApi, SnapStorage>;

// ---------------------------------------------------------------------------------------------
// exact rationals

#[derive(Clone, Debug, PartialEq, Eq, Hash)]
pub struct Rat {
    n: BigInt,
    d: BigInt,
}

impl Rat {
    pub fn new(n: impl Into<BigInt>, d: impl Into<BigInt>) -> Rat {
        let (mut n, mut d) = (n.into(), d.into());
        if d.is_negative() {
            n = -n;
            d = -d;
        }
        let g = n.gcd(&d);
        if !g.is_zero() && !g.is_one() {
            n /= &g;
            d /= &g;
        }
        Rat { n, d }
    }
    pub fn int(v: u128) -> Rat {
        Rat { n: BigInt::from(v), d: BigInt::one() }
    }
    pub fn zero() -> Rat {
        Rat::int(0)
    }
    pub fn add(&self, o: &Rat) -> Rat {
        Rat::new(&self.n * &o.d + &o.n * &self.d, &self.d * &o.d)
    }
    pub fn sub(&self, o: &Rat) -> Rat {
        Rat::new(&self.n * &o.d - &o.n * &self.d, &self.d * &o.d)
    }
    pub fn mul(&self, o: &Rat) -> Rat {
        Rat::new(&self.n * &o.n, &self.d * &o.d)
    }
    pub fn floor(&self) -> BigInt {
        self.n.div_floor(&self.d)
    }
    pub fn floor_u128(&self) -> u128 {
        self.floor().to_u128().unwrap_or(0)
    }
    pub fn is_whole(&self) -> bool {
        self.d.is_one()
    }
    pub fn is_zero(&self) -> bool {
        self.n.is_zero()
    }
    pub fn le_int(&self, v: u128) -> bool {
        self.n <= BigInt::from(v) * &self.d
    }
    pub fn lt(&self, o: &Rat) -> bool {
        &self.n * &o.d < &o.n * &self.d
    }
    pub fn to_f64(&self) -> f64 {
        self.n.to_f64().unwrap_or(f64::NAN) / self.d.to_f64().unwrap_or(f64::NAN)
    }
    pub fn show(&self) -> String {
        if self.is_whole() {
            format!("{}", self.n)
        } else {
            format!("{}/{}", self.n, self.d)
        }
    }
}

// ---------------------------------------------------------------------------------------------
// operations

#[derive(Clone, Debug, PartialEq, Eq, Hash)]
pub enum SOp {
    Delegate { d: u8, v: u8, amt: u128, denom: u8 },
    Undelegate { d: u8, v: u8, amt: u128, denom: u8 },
    Redelegate { d: u8, src: u8, dst: u8, amt: u128 },
    /// a redelegation naming a foreign denomination (must always be refused)
    RedelegateForeign { d: u8, src: u8, dst: u8, amt: u128 },
    Withdraw { d: u8, v: u8 },
    SetWithdraw { d: u8, to: u8 },
    /// percent of the validator's stake
    Slash { v: u8, pct: u32 },
    /// update_block advancing time by the given seconds (and height by one)
    Advance { secs: u64 },
    /// set_block to the same time plus the given seconds, other height / chain id
    SetBlock { secs: u64 },
    /// update_block advancing time by nanoseconds (sub-second block times)
    AdvanceNanos { nanos: u64 },
    /// the chain operator registers an EXISTING validator once more (`StakeKeeper::add_validator`
    /// through `App::init_modules`): whatever the answer, delegations, balances and what a later
    /// slash scales are as before
    ReAddValidator { v: u8 },
}

pub fn sop_label(o: &SOp) -> String {
    match o {
        SOp::Delegate { d, v, amt, denom } => format!("delegate(d{}, v{}, {}{})", d + 1, v + 1, amt, if *denom == 0 { "" } else { " foreign" }),
        SOp::Undelegate { d, v, amt, denom } => format!("undelegate(d{}, v{}, {}{})", d + 1, v + 1, amt, if *denom == 0 { "" } else { " foreign" }),
        SOp::Redelegate { d, src, dst, amt } => format!("redelegate(d{}, v{}->v{}, {})", d + 1, src + 1, dst + 1, amt),
        SOp::RedelegateForeign { d, src, dst, amt } => format!("redelegate(d{}, v{}->v{}, {} foreign)", d + 1, src + 1, dst + 1, amt),
        SOp::Withdraw { d, v } => format!("withdraw(d{}, v{})", d + 1, v + 1),
        SOp::SetWithdraw { d, to } => format!("set_withdraw_address(d{}, {})", d + 1, if *to == 9 { "self".to_string() } else if *to == 8 { "other".to_string() } else { format!("w{}", to) }),
        SOp::Slash { v, pct } => format!("slash(v{}, {}%)", v + 1, pct),
        SOp::Advance { secs } => format!("advance({}s)", secs),
        SOp::SetBlock { secs } => format!("set_block(+{}s)", secs),
        SOp::AdvanceNanos { nanos } => format!("advance({}ns)", nanos),
        SOp::ReAddValidator { v } => format!("add_validator_again(v{})", v + 1),
    }
}

/// Parses a label written by `sop_label` (any operation, whether or not some alphabet has it).
pub fn sop_parse(s: &str, all: &[SOp]) -> SOp {
    if let Some(o) = all.iter().find(|o| sop_label(o) == s) {
        return o.clone();
    }
    let bad = || -> ! { machinery_error(&format!("unknown staking op {}", s)) };
    let (name, rest) = match s.split_once('(') {
        Some((n, r)) => (n, r.strip_suffix(')').unwrap_or(r)),
        None => bad(),
    };
    let args: Vec<&str> = rest.split(", ").collect();
    let idx = |a: &str, p: char| -> u8 { a.strip_prefix(p).and_then(|x| x.parse::<u8>().ok()).map(|x| x.wrapping_sub(1)).unwrap_or_else(|| bad()) };
    let amount = |a: &str| -> (u128, u8) {
        let (n, foreign) = match a.strip_suffix(" foreign") {
            Some(n) => (n, 1u8),
            None => (a, 0u8),
        };
        (n.parse::<u128>().unwrap_or_else(|_| bad()), foreign)
    };
    let op = match (name, args.len()) {
        ("delegate", 3) => {
            let (amt, denom) = amount(args[2]);
            SOp::Delegate { d: idx(args[0], 'd'), v: idx(args[1], 'v'), amt, denom }
        }
        ("undelegate", 3) => {
            let (amt, denom) = amount(args[2]);
            SOp::Undelegate { d: idx(args[0], 'd'), v: idx(args[1], 'v'), amt, denom }
        }
        ("redelegate", 3) => {
            let (src, dst) = args[1].split_once("->").unwrap_or_else(|| bad());
            let (amt, foreign) = amount(args[2]);
            if foreign == 1 {
                SOp::RedelegateForeign { d: idx(args[0], 'd'), src: idx(src, 'v'), dst: idx(dst, 'v'), amt }
            } else {
                SOp::Redelegate { d: idx(args[0], 'd'), src: idx(src, 'v'), dst: idx(dst, 'v'), amt }
            }
        }
        ("withdraw", 2) => SOp::Withdraw { d: idx(args[0], 'd'), v: idx(args[1], 'v') },
        ("set_withdraw_address", 2) => SOp::SetWithdraw { d: idx(args[0], 'd'), to: if args[1] == "self" { 9 } else if args[1] == "other" { 8 } else { args[1].strip_prefix('w').and_then(|x| x.parse().ok()).unwrap_or_else(|| bad()) } },
        ("slash", 2) => SOp::Slash { v: idx(args[0], 'v'), pct: args[1].strip_suffix('%').and_then(|x| x.parse().ok()).unwrap_or_else(|| bad()) },
        ("advance", 1) => match args[0].strip_suffix("ns") {
            Some(n) => SOp::AdvanceNanos { nanos: n.parse().unwrap_or_else(|_| bad()) },
            None => SOp::Advance { secs: args[0].strip_suffix('s').and_then(|x| x.parse().ok()).unwrap_or_else(|| bad()) },
        },
        ("add_validator_again", 1) => SOp::ReAddValidator { v: idx(args[0], 'v') },
        ("set_block", 1) => SOp::SetBlock { secs: args[0].strip_prefix('+').and_then(|x| x.strip_suffix('s')).and_then(|x| x.parse().ok()).unwrap_or_else(|| bad()) },
        _ => bad(),
    };
    if sop_label(&op) != s {
        bad();
    }
    op
}

pub struct Names {
    pub delegators: Vec<String>,
    pub validators: Vec<String>,
    pub withdraw: Vec<String>,
    pub commissions: Vec<u32>,
}

/// none of the staking parameters is the module default (TOKEN, 60 s, 10 %), so that a configured
/// value being ignored somewhere shows
pub const DENOM: &str = "ustake";
/// a foreign denomination that differs from the bonded one in letter case only
pub const FOREIGN: &str = "USTAKE";
pub const UNBONDING: u64 = 50;
pub const APR_PCT: u32 = 12;
pub const YEAR: u64 = 60 * 60 * 24 * 365;

pub fn names() -> Names {
    let api = MockApi::default();
    Names {
        delegators: vec![api.addr_make("d1").into_string(), api.addr_make("d2").into_string()],
        // (the two validators differ in letter case only: they are different validators)
        validators: vec!["valoper-one".into(), "VALOPER-ONE".into(), "valoper-unknown".into()],
        withdraw: vec![api.addr_make("w0").into_string()],
        commissions: vec![10, 0],
    }
}

fn build(nm: &Names, cfg: &Cfg) -> SApp {
    let funds = cfg.funds;
    let block = mock_env().block;
    let mut reg_block = block.clone();
    reg_block.time = reg_block.time.plus_seconds(cfg.reg_ahead_s);
    let _ = &block;
    AppBuilder::new().with_storage(SnapStorage::new()).build(|router, api, storage| {
        for d in &nm.delegators {
            router.bank.init_balance(storage, &Addr::unchecked(d), vec![coin(funds, DENOM), coin(5, FOREIGN)]).unwrap();
        }
        router.staking.setup(storage, StakingInfo { bonded_denom: DENOM.into(), unbonding_time: cfg.unbonding, apr: Decimal::percent(cfg.apr_pct as u64) }).unwrap();
        for (i, v) in nm.validators.iter().take(2).enumerate() {
            router
                .staking
                // (in the odd-registration configuration the validators also carry a maximum commission
                // BELOW their commission: nothing validates the two against each other, and the
                // commission that counts is the validator's commission)
                .add_validator(api, storage, &reg_block, Validator::create(v.clone(), Decimal::percent(nm.commissions[i] as u64), Decimal::percent(if cfg.reg_ahead_s > 0 { 5 } else { 100 }), Decimal::percent(1)))
                .unwrap();
        }
    })
}

// ---------------------------------------------------------------------------------------------
// observation

#[derive(Clone, Debug, PartialEq, Eq, Hash, Default)]
pub struct Obs {
    /// (delegator, validator) -> shown delegation (0 = none)
    pub deleg: BTreeMap<(u8, u8), u128>,
    /// (delegator, validator) -> shown pending reward
    pub pending: BTreeMap<(u8, u8), u128>,
    /// AllDelegations per delegator: validator index -> amount
    pub all_deleg: BTreeMap<u8, BTreeMap<u8, u128>>,
    /// TOKEN balances: delegators then withdraw addresses
    pub bal: Vec<u128>,
    pub supply: u128,
    pub foreign_bal: Vec<u128>,
    /// (delegator, validator) -> rewards as told by `StakeKeeper::get_rewards` (None = no stake
    /// entry); unlike the Delegation query this also answers while the delegation shows 0 tokens
    pub keeper_rewards: BTreeMap<(u8, u8), Option<u128>>,
}

/// Queries everything the staking properties talk about. Any panic / error is returned as Err.
fn observe(app: &SApp, nm: &Names) -> Result<Obs, String> {
    let r = catch(|| -> Result<Obs, String> {
        let mut o = Obs::default();
        for (di, d) in nm.delegators.iter().enumerate() {
            for (vi, v) in nm.validators.iter().take(2).enumerate() {
                let fd = app.wrap().query_delegation(d.clone(), v.clone()).map_err(|e| format!("Delegation query failed: {}", e))?;
                if let Some(fd) = fd {
                    if fd.amount.denom != DENOM {
                        return Err("delegation in a foreign denom".into());
                    }
                    o.deleg.insert((di as u8, vi as u8), fd.amount.amount.u128());
                    let pend: u128 = fd.accumulated_rewards.iter().filter(|c| c.denom == DENOM).map(|c| c.amount.u128()).sum();
                    o.pending.insert((di as u8, vi as u8), pend);
                } else {
                    o.deleg.insert((di as u8, vi as u8), 0);
                    o.pending.insert((di as u8, vi as u8), 0);
                }
            }
            for (vi, v) in nm.validators.iter().take(2).enumerate() {
                let block = app.block_info();
                let r = app.read_module(|router, _, storage| router.staking.get_rewards(storage, &block, &Addr::unchecked(d.clone()), v)).map_err(|e| format!("get_rewards failed: {}", e))?;
                o.keeper_rewards.insert((di as u8, vi as u8), r.map(|c| c.amount.u128()));
            }
            let all = app.wrap().query_all_delegations(d.clone()).map_err(|e| format!("AllDelegations query failed: {}", e))?;
            let mut m = BTreeMap::new();
            for dl in all {
                let vi = nm.validators.iter().position(|v| *v == dl.validator).ok_or("AllDelegations lists an unknown validator")? as u8;
                if m.insert(vi, dl.amount.amount.u128()).is_some() {
                    return Err("AllDelegations lists a validator twice".into());
                }
            }
            o.all_deleg.insert(di as u8, m);
        }
        for a in nm.delegators.iter().chain(nm.withdraw.iter()) {
            o.bal.push(app.wrap().query_balance(a.clone(), DENOM).map_err(|e| e.to_string())?.amount.u128());
            o.foreign_bal.push(app.wrap().query_balance(a.clone(), FOREIGN).map_err(|e| e.to_string())?.amount.u128());
        }
        o.supply = app.wrap().query_supply(DENOM).map_err(|e| e.to_string())?.amount.u128();
        Ok(o)
    });
    match r {
        Ok(x) => x,
        Err(p) => Err(format!("panic in query: {}", p)),
    }
}

// ---------------------------------------------------------------------------------------------
// hidden exact model

#[derive(Clone, Debug, PartialEq, Eq, Hash)]
pub struct QEntry {
    d: u8,
    v: u8,
    amount: Rat,
    /// nanoseconds since start
    payout_at: u128,
    slashes: u32,
}

#[derive(Clone, Debug, PartialEq, Eq, Hash, Default)]
pub struct RewardAcc {
    /// exact upper bound of rewards earned in the current positive period
    up: Option<Rat>,
    /// lower bound (rounded-down stake)
    low: Option<Rat>,
    withdrawn: u128,
    withdrawals: u32,
}

#[derive(Clone, Debug, PartialEq, Eq, Hash, Default)]
pub struct Hidden {
    /// exact shares (upper bound of what the implementation holds)
    shares: BTreeMap<(u8, u8), Rat>,
    queue: Vec<QEntry>,
    /// nanoseconds since start
    now: u128,
    withdraw_to: BTreeMap<u8, u8>,
    rewards: BTreeMap<(u8, u8), RewardAcc>,
    /// rewards accrue from here on (nanoseconds since start): the validators' registration time
    reward_start_ns: u128,
    /// time of the last change of any stake of the validator (rewards accrue on constant stake)
    slashed_ever: BTreeMap<u8, u32>,
}

impl Hidden {
    fn share(&self, d: u8, v: u8) -> Rat {
        self.shares.get(&(d, v)).cloned().unwrap_or_else(Rat::zero)
    }
    fn all_whole(&self, v: u8) -> bool {
        self.shares.iter().filter(|((_, vv), _)| *vv == v).all(|(_, s)| s.is_whole())
    }
    /// accrue rewards of every delegation of validator v (or all) for `dt` seconds at current stakes
    fn accrue(&mut self, dt_ns: u128, nm: &Names) {
        let (from, to) = (self.now.max(self.reward_start_ns), self.now + dt_ns);
        if to <= from {
            return;
        }
        let dt_ns = to - from;
        for ((d, v), s) in self.shares.clone() {
            if s.is_zero() {
                continue;
            }
            let rate = Rat::new(BigInt::from(APR_PCT as u64 * (100 - nm.commissions[v as usize]) as u64) * BigInt::from(dt_ns), BigInt::from(100u64 * 100 * YEAR) * BigInt::from(1_000_000_000u64));
            let acc = self.rewards.entry((d, v)).or_default();
            let up = s.mul(&rate);
            let low = Rat::int(s.floor_u128()).mul(&rate);
            acc.up = Some(acc.up.clone().unwrap_or_else(Rat::zero).add(&up));
            acc.low = Some(acc.low.clone().unwrap_or_else(Rat::zero).add(&low));
        }
    }
}

#[derive(Clone)]
pub struct SState {
    pub storage: SnapStorage,
    pub block: BlockInfo,
    pub hidden: Hidden,
    pub obs: Obs,
    pub path: Vec<u16>,
}

pub struct Cfg {
    pub check_rewards: bool,
    pub prop: String,
    pub funds: u128,
    /// unbonding period in seconds (a staking parameter fixed at setup)
    pub unbonding: u64,
    /// payouts of matured unbondings are judged under this property too (C16: only where the
    /// exploration is built so that what is paid is decided by the slashes alone)
    pub payout_is_home: bool,
    /// annual rate in percent (a staking parameter fixed at setup)
    pub apr_pct: u32,
    /// the validators are registered with a block whose time is this many seconds AHEAD of the
    /// chain's (rewards cannot accrue before a validator exists)
    pub reg_ahead_s: u64,
}

fn pct_rat(p: u32) -> Rat {
    Rat::new(p as u64, 100u64)
}

/// Result of one transition.
pub struct Step {
    pub next: Option<SState>,
    pub ok: bool,
    pub tolerated_err: bool,
}

/// Executes `op` from `st` on the real code and checks the transition relation.
/// `report(class, detail)` is called for each violated clause.
pub fn step(app: &mut SApp, nm: &Names, st: &SState, op: &SOp, cfg: &Cfg, ops_all: &[SOp], report_outer: &mut dyn FnMut(&str, Value)) -> Step {
    // any violated clause (of this property or another one) makes the hidden model and the real
    // state inconsistent with each other: such a transition is reported (by the property the
    // clause belongs to) but its successor state is not explored further
    let clause_violations = std::cell::Cell::new(0u32);
    let mut counting = |class: &str, detail: Value| {
        clause_violations.set(clause_violations.get() + 1);
        report_outer(class, detail)
    };
    let report: &mut dyn FnMut(&str, Value) = &mut counting;
    // restoring a state is the harness's business, not the subject's: the block is put in place
    // over an EMPTY store (set_block runs the staking end-blocker), then the state's store goes in
    *app.storage_mut() = SnapStorage::new();
    app.set_block(st.block.clone());
    *app.storage_mut() = st.storage.clone();
    let pre = &st.obs;
    let mut h = st.hidden.clone();
    let hist = |path: &Vec<u16>, op: &SOp| {
        let mut v: Vec<String> = path.iter().map(|i| sop_label(&ops_all[*i as usize])).collect();
        v.push(sop_label(op));
        v
    };
    let mut path = st.path.clone();
    let case = |what: &str, extra: Value| json!({"engine": "staking", "history": hist(&st.path, op), "clause": what, "detail": extra, "unbonding_s": cfg.unbonding, "apr_pct": cfg.apr_pct, "validators_registered_ahead_s": cfg.reg_ahead_s, "initial_funds": cfg.funds.to_string()});
    let d_addr = |d: u8| Addr::unchecked(&nm.delegators[d as usize]);
    let denom_of = |x: u8| if x == 0 { DENOM } else { FOREIGN };
    // ---- run the operation
    let is_block_op = matches!(op, SOp::Advance { .. } | SOp::SetBlock { .. } | SOp::AdvanceNanos { .. });
    let res: Result<Result<(), String>, String> = catch(|| match op {
        SOp::Delegate { d, v, amt, denom } => app
            .execute(d_addr(*d), StakingMsg::Delegate { validator: nm.validators[*v as usize].clone(), amount: coin(*amt, denom_of(*denom)) }.into())
            .map(|_| ())
            .map_err(|e| format!("{:#}", e)),
        SOp::Undelegate { d, v, amt, denom } => app
            .execute(d_addr(*d), StakingMsg::Undelegate { validator: nm.validators[*v as usize].clone(), amount: coin(*amt, denom_of(*denom)) }.into())
            .map(|_| ())
            .map_err(|e| format!("{:#}", e)),
        SOp::Redelegate { d, src, dst, amt } => app
            .execute(
                d_addr(*d),
                StakingMsg::Redelegate { src_validator: nm.validators[*src as usize].clone(), dst_validator: nm.validators[*dst as usize].clone(), amount: coin(*amt, DENOM) }.into(),
            )
            .map(|_| ())
            .map_err(|e| format!("{:#}", e)),
        SOp::RedelegateForeign { d, src, dst, amt } => app
            .execute(
                d_addr(*d),
                StakingMsg::Redelegate { src_validator: nm.validators[*src as usize].clone(), dst_validator: nm.validators[*dst as usize].clone(), amount: coin(*amt, FOREIGN) }.into(),
            )
            .map(|_| ())
            .map_err(|e| format!("{:#}", e)),
        SOp::Withdraw { d, v } => app
            .execute(d_addr(*d), DistributionMsg::WithdrawDelegatorReward { validator: nm.validators[*v as usize].clone() }.into())
            .map(|_| ())
            .map_err(|e| format!("{:#}", e)),
        SOp::SetWithdraw { d, to } => {
            // 9: the delegator itself (a reset); 8: the OTHER delegator (withdraw addresses may point at each other)
            let a = if *to == 9 { nm.delegators[*d as usize].clone() } else if *to == 8 { nm.delegators[(*d ^ 1) as usize].clone() } else { nm.withdraw[*to as usize].clone() };
            app.execute(d_addr(*d), DistributionMsg::SetWithdrawAddress { address: a }.into()).map(|_| ()).map_err(|e| format!("{:#}", e))
        }
        SOp::Slash { v, pct } => app
            .sudo(SudoMsg::Staking(StakingSudo::Slash { validator: nm.validators[*v as usize].clone(), percentage: Decimal::percent(*pct as u64) }))
            .map(|_| ())
            .map_err(|e| format!("{:#}", e)),
        SOp::Advance { secs } => {
            let s = *secs;
            app.update_block(|b| {
                b.time = b.time.plus_seconds(s);
                b.height += 1;
            });
            Ok(())
        }
        SOp::AdvanceNanos { nanos } => {
            let n = *nanos;
            app.update_block(|b| {
                b.time = b.time.plus_nanos(n);
                b.height += 1;
            });
            Ok(())
        }
        SOp::SetBlock { secs } => {
            let mut b = app.block_info();
            b.time = b.time.plus_seconds(*secs);
            if *secs == UNBONDING {
                // exactly the block update_block would give (the states merge with those of the
                // advance operation; only the way the block is set differs)
                b.height += 1;
            } else if *secs == 0 {
                // the very same block set again (same height, time and chain id): a block update
                // like any other
            } else {
                b.height += 7;
                b.chain_id = "renamed-chain".into();
            }
            app.set_block(b);
            Ok(())
        }
        SOp::ReAddValidator { v } => {
            let block = app.block_info();
            let val = Validator::create(nm.validators[*v as usize].clone(), Decimal::percent(nm.commissions[*v as usize] as u64), Decimal::percent(100), Decimal::percent(1));
            app.init_modules(|router, api, storage| router.staking.add_validator(api, storage, &block, val)).map_err(|e| format!("{:#}", e))
        }
    });
    path.push(ops_all.iter().position(|o| o == op).unwrap_or(0) as u16);
    let res = match res {
        Ok(r) => r,
        Err(p) => {
            let class = if is_block_op { "panic-in-block-update" } else { "panic-in-operation" };
            report(&format!("{}:{}", class, panic_site(&p)), case("no sequence of valid staking operations and block updates makes the simulator panic", json!({"panic": p})));
            return Step { next: None, ok: false, tolerated_err: false };
        }
    };
    let post = match observe(app, nm) {
        Ok(o) => o,
        Err(e) => {
            report(&format!("panic-or-error-in-query-after:{}", op_kind(op)), case("queries must work in every reachable state", json!({"error": e})));
            return Step { next: None, ok: res.is_ok(), tolerated_err: false };
        }
    };
    // the two delegation queries are views of the same delegations: AllDelegations lists exactly the
    // pairs the Delegation query shows, with the same amounts
    for d in 0..nm.delegators.len() as u8 {
        for v in 0..2u8 {
            let single = post.deleg[&(d, v)];
            let listed = post.all_deleg.get(&d).and_then(|m| m.get(&v)).copied().unwrap_or(0);
            if single != listed {
                report(
                    &format!("delegation-queries-disagree:{}", op_kind(op)),
                    case("AllDelegations and Delegation show the same amounts", json!({"pair": format!("d{} v{}", d + 1, v + 1), "Delegation": single.to_string(), "AllDelegations": listed.to_string()})),
                );
            }
        }
    }
    let unchanged = app.storage().data == st.storage.data;
    let ok = res.is_ok();
    let mut tolerated_err = false;
    let must_fail = |why: &str, report: &mut dyn FnMut(&str, Value)| {
        if ok {
            report(&format!("invalid-operation-accepted:{}:{}", op_kind(op), why), case("invalid staking operation must fail without effect", json!({"why": why})));
        } else if !unchanged {
            report(&format!("rejected-operation-changed-state:{}", op_kind(op)), case("failed operation must leave every byte of storage unchanged", json!({"why": why, "error": res.as_ref().err()})));
        }
    };
    let others_unchanged = |report: &mut dyn FnMut(&str, Value), skip_deleg: &[(u8, u8)], skip_bal: &[usize], skip_pending: Option<&[(u8, u8)]>| {
        for (k, v) in &pre.deleg {
            if !skip_deleg.contains(k) && post.deleg.get(k) != Some(v) {
                report(&format!("unrelated-delegation-changed:{}", op_kind(op)), case("an operation must not change other delegations", json!({"pair": format!("d{} v{}", k.0 + 1, k.1 + 1), "before": v.to_string(), "after": post.deleg.get(k).map(|x| x.to_string())})));
            }
        }
        for (i, b) in pre.bal.iter().enumerate() {
            if !skip_bal.contains(&i) && post.bal[i] != *b {
                report(&format!("unrelated-balance-changed:{}", op_kind(op)), case("an operation must not change other balances", json!({"account_index": i, "before": b.to_string(), "after": post.bal[i].to_string()})));
            }
        }
        if post.foreign_bal != pre.foreign_bal {
            report(&format!("foreign-denom-balance-changed:{}", op_kind(op)), case("staking never moves other denominations", json!({})));
        }
        if let Some(skip) = skip_pending {
            for (k, v) in &pre.pending {
                if !skip.contains(k) && post.pending.get(k) != Some(v) {
                    report(&format!("unrelated-pending-reward-changed:{}", op_kind(op)), case("pending rewards of other pairs are unaffected (same block)", json!({"pair": format!("d{} v{}", k.0 + 1, k.1 + 1), "before": v.to_string(), "after": post.pending.get(k).map(|x| x.to_string())})));
                }
            }
        }
    };
    // ---- the two delegation queries agree (a listed zero counts as absent)
    for (di, m) in &post.all_deleg {
        for vi in 0..2u8 {
            let a = m.get(&vi).copied().unwrap_or(0);
            let s = post.deleg.get(&(*di, vi)).copied().unwrap_or(0);
            if a != s {
                report("delegation-queries-disagree", case("Delegation and AllDelegations show the same positive amounts", json!({"pair": format!("d{} v{}", di + 1, vi + 1), "Delegation": s.to_string(), "AllDelegations": a.to_string()})));
            }
        }
    }
    // ---- per-operation relation
    match op {
        SOp::Delegate { d, v, amt, denom } => {
            let known = (*v as usize) < 2;
            if *amt == 0 || *denom != 0 || !known {
                must_fail(if *amt == 0 { "zero-amount" } else if *denom != 0 { "foreign-denom" } else { "unknown-validator" }, report);
            } else if pre.bal[*d as usize] < *amt {
                must_fail("insufficient-balance", report);
            } else if !ok {
                report("valid-delegate-rejected", case("a valid delegation must succeed", json!({"error": res.as_ref().err()})));
                if !unchanged {
                    report("rejected-operation-changed-state:delegate", case("failed operation changed storage", json!({})));
                }
            } else {
                if post.bal[*d as usize] + amt != pre.bal[*d as usize] {
                    report("delegate-balance", case("delegating moves exactly the amount from the delegator", json!({"before": pre.bal[*d as usize].to_string(), "after": post.bal[*d as usize].to_string(), "amount": amt.to_string()})));
                }
                if post.supply != pre.supply {
                    report("delegate-supply", case("delegating moves the amount to the staking pool (total supply unchanged)", json!({"before": pre.supply.to_string(), "after": post.supply.to_string()})));
                }
                if post.deleg[&(*d, *v)] != pre.deleg[&(*d, *v)] + amt {
                    report("delegate-shown-delegation", case("delegating raises the delegation by the amount", json!({"before": pre.deleg[&(*d, *v)].to_string(), "after": post.deleg[&(*d, *v)].to_string(), "amount": amt.to_string()})));
                }
                others_unchanged(report, &[(*d, *v)], &[*d as usize], None);
                let s = h.share(*d, *v).add(&Rat::int(*amt));
                h.shares.insert((*d, *v), s);
            }
        }
        SOp::Undelegate { d, v, amt, denom } => {
            let known = (*v as usize) < 2;
            if *amt == 0 || *denom != 0 || !known {
                must_fail(if *amt == 0 { "zero-amount" } else if *denom != 0 { "foreign-denom" } else { "unknown-validator" }, report);
            } else if *amt > pre.deleg[&(*d, *v)] {
                must_fail("more-than-delegated", report);
            } else if !ok {
                if h.all_whole(*v) {
                    report("valid-undelegate-rejected", case("a valid undelegation must succeed when all shares of the validator are whole", json!({"error": res.as_ref().err()})));
                } else {
                    tolerated_err = true;
                }
                if !unchanged {
                    report("rejected-operation-changed-state:undelegate", case("failed operation changed storage", json!({})));
                }
            } else {
                if post.deleg[&(*d, *v)] + amt != pre.deleg[&(*d, *v)] {
                    report("undelegate-shown-delegation", case("an undelegated amount leaves the delegation at once", json!({"before": pre.deleg[&(*d, *v)].to_string(), "after": post.deleg[&(*d, *v)].to_string(), "amount": amt.to_string()})));
                }
                if post.bal != pre.bal || post.supply != pre.supply {
                    report("undelegate-paid-early", case("nothing is paid back before the unbonding period", json!({"before": format!("{:?}", pre.bal), "after": format!("{:?}", post.bal)})));
                }
                others_unchanged(report, &[(*d, *v)], &[], None);
                let s = h.share(*d, *v).sub(&Rat::int(*amt));
                if s.is_zero() || s.n.is_negative() {
                    h.shares.remove(&(*d, *v));
                } else {
                    h.shares.insert((*d, *v), s);
                }
                h.queue.push(QEntry { d: *d, v: *v, amount: Rat::int(*amt), payout_at: h.now + cfg.unbonding as u128 * 1_000_000_000, slashes: 0 });
                // (a delegation that is still positive below one token - shown as 0 - is still a
                // positive delegation: what it has earned stays on its account)
                if !h.shares.contains_key(&(*d, *v)) {
                    h.rewards.remove(&(*d, *v));
                }
            }
        }
        SOp::RedelegateForeign { .. } => {
            must_fail("foreign-denom", report);
        }
        SOp::Redelegate { d, src, dst, amt } => {
            let known = (*src as usize) < 2 && (*dst as usize) < 2;
            if !known {
                must_fail("unknown-validator", report);
            } else if *amt > pre.deleg[&(*d, *src)] {
                must_fail("more-than-delegated", report);
            } else if !ok {
                if h.all_whole(*src) {
                    report("valid-redelegate-rejected", case("a valid redelegation must succeed when all shares of the validator are whole", json!({"error": res.as_ref().err()})));
                } else {
                    tolerated_err = true;
                }
                if !unchanged {
                    report("rejected-operation-changed-state:redelegate", case("failed operation changed storage", json!({})));
                }
            } else {
                if src != dst {
                    if post.deleg[&(*d, *src)] + amt != pre.deleg[&(*d, *src)] || post.deleg[&(*d, *dst)] != pre.deleg[&(*d, *dst)] + amt {
                        report("redelegate-shown-delegation", case("redelegation moves the amount between the two delegations at once", json!({"src_before": pre.deleg[&(*d, *src)].to_string(), "src_after": post.deleg[&(*d, *src)].to_string(), "dst_before": pre.deleg[&(*d, *dst)].to_string(), "dst_after": post.deleg[&(*d, *dst)].to_string()})));
                    }
                } else if post.deleg[&(*d, *src)] != pre.deleg[&(*d, *src)] {
                    report("redelegate-shown-delegation", case("redelegating to the same validator changes nothing", json!({})));
                }
                if post.bal != pre.bal || post.supply != pre.supply {
                    report("redelegate-moved-coins", case("redelegation changes no balance", json!({})));
                }
                others_unchanged(report, &[(*d, *src), (*d, *dst)], &[], None);
                if src != dst {
                    let s = h.share(*d, *src).sub(&Rat::int(*amt));
                    if s.is_zero() || s.n.is_negative() {
                        h.shares.remove(&(*d, *src));
                    } else {
                        h.shares.insert((*d, *src), s);
                    }
                    let t = h.share(*d, *dst).add(&Rat::int(*amt));
                    h.shares.insert((*d, *dst), t);
                    if !h.shares.contains_key(&(*d, *src)) {
                        h.rewards.remove(&(*d, *src));
                    }
                }
            }
        }
        SOp::Withdraw { d, v } => {
            if (*v as usize) >= 2 {
                must_fail("unknown-validator", report);
            } else if !ok {
                if !unchanged {
                    report("rejected-operation-changed-state:withdraw", case("failed withdrawal changed storage", json!({"error": res.as_ref().err()})));
                }
                if cfg.check_rewards && pre.pending[&(*d, *v)] > 0 && pre.deleg[&(*d, *v)] > 0 {
                    report("withdraw-of-positive-reward-rejected", case("withdrawing a shown positive reward of a positive delegation must succeed", json!({"pending": pre.pending[&(*d, *v)].to_string(), "error": res.as_ref().err()})));
                }
            } else {
                // what was shown beforehand: the Delegation query's accumulated_rewards; where that
                // query shows no delegation at all (a sub-token remainder of a slashed stake), it
                // shows no reward figure either, and the figure of StakeKeeper::get_rewards is used
                let paid = if pre.deleg[&(*d, *v)] > 0 { pre.pending[&(*d, *v)] } else { pre.keeper_rewards[&(*d, *v)].unwrap_or(0) };
                let target = match h.withdraw_to.get(d) {
                    Some(8) => (*d ^ 1) as usize,
                    Some(w) => nm.delegators.len() + *w as usize,
                    None => *d as usize,
                };
                let mut want = pre.bal.clone();
                want[target] += paid;
                if post.bal != want {
                    report("withdraw-pays-shown-pending-to-withdraw-address", case("a successful withdrawal pays exactly the pending reward shown beforehand to the current withdraw address", json!({"pending_before": paid.to_string(), "balances_before": format!("{:?}", pre.bal), "balances_after": format!("{:?}", post.bal), "expected": format!("{:?}", want)})));
                }
                if post.supply != pre.supply + paid {
                    report("withdraw-mints-exactly-the-reward", case("a withdrawal mints nothing but the reward", json!({"supply_before": pre.supply.to_string(), "supply_after": post.supply.to_string(), "pending": paid.to_string()})));
                }
                if post.pending[&(*d, *v)] != 0 {
                    report("withdraw-resets-pending", case("pending reward is zero after a withdrawal", json!({"after": post.pending[&(*d, *v)].to_string()})));
                }
                others_unchanged(report, &[], &[target], Some(&[(*d, *v)]));
                // note: own pending excluded above via skip? pending of (d,v) itself must be 0, checked
                let acc = h.rewards.entry((*d, *v)).or_default();
                acc.withdrawn += paid;
                acc.withdrawals += 1;
            }
        }
        SOp::SetWithdraw { d, to } => {
            if !ok {
                report("set-withdraw-address-rejected", case("changing the withdraw address to a valid address succeeds", json!({"error": res.as_ref().err()})));
            } else {
                others_unchanged(report, &[], &[], Some(&[]));
                if *to == 9 {
                    h.withdraw_to.remove(d);
                } else {
                    h.withdraw_to.insert(*d, *to);
                }
            }
        }
        SOp::ReAddValidator { .. } => {
            if post.deleg != pre.deleg || post.bal != pre.bal || post.supply != pre.supply || post.pending != pre.pending {
                report("slash-base-changed:validator-registered-again", case("registering an existing validator once more (accepted or refused) changes no delegation, balance or shown reward", json!({"result": res.as_ref().map(|_| "Ok").map_err(|e| e.clone()), "delegations_before": format!("{:?}", pre.deleg), "delegations_after": format!("{:?}", post.deleg)})));
            }
        }
        SOp::Slash { v, pct } => {
            if *pct > 100 || (*v as usize) >= 2 {
                must_fail(if *pct > 100 { "fraction-above-one" } else { "unknown-validator" }, report);
            } else if !ok {
                report("valid-slash-rejected", case("slashing a known validator by a fraction in [0,1] succeeds", json!({"error": res.as_ref().err()})));
            } else {
                let keep = Rat::new(100u64 - *pct as u64, 100u64);
                for d in 0..nm.delegators.len() as u8 {
                    let old = pre.deleg[&(d, *v)];
                    let new = post.deleg[&(d, *v)];
                    let lo = Rat::int(old).mul(&keep).floor_u128();
                    let hi = h.share(d, *v).mul(&keep).floor_u128();
                    if new > old {
                        report("slash-increased-delegation", case("slashing never increases an amount", json!({"before": old.to_string(), "after": new.to_string()})));
                    }
                    if new < lo || new > hi.max(lo) {
                        report(
                            &format!("slash-scaling:{}", if new < lo { "below-floor-of-scaled-shown-value" } else { "above-exact-scaled-value" }),
                            case("slashing by p reduces a delegation to (1-p) times its value rounded down (sub-token remainders may additionally be dropped)", json!({"pair": format!("d{} v{}", d + 1, v + 1), "before": old.to_string(), "after": new.to_string(), "allowed": format!("[{}, {}]", lo, hi.max(lo)), "exact_shares_before": h.share(d, *v).show()})),
                        );
                    }
                    if *pct == 100 && (new != 0 || post.all_deleg[&d].contains_key(v)) {
                        report("slash-100-leaves-delegation", case("p = 1 removes the delegations entirely", json!({"after": new.to_string(), "listed": post.all_deleg[&d].contains_key(v)})));
                    }
                }
                let other_v = 1 - *v;
                let skip: Vec<(u8, u8)> = (0..nm.delegators.len() as u8).map(|d| (d, *v)).collect();
                let _ = other_v;
                others_unchanged(report, &skip, &[], Some(&skip));
                // rewards accrued so far on the slashed validator are unchanged too (same block)
                for d in 0..nm.delegators.len() as u8 {
                    if post.deleg[&(d, *v)] > 0 && post.pending[&(d, *v)] != pre.pending[&(d, *v)] {
                        report("slash-changed-accrued-rewards", case("slashing leaves already accrued rewards unchanged", json!({"pair": format!("d{} v{}", d + 1, v + 1), "before": pre.pending[&(d, *v)].to_string(), "after": post.pending[&(d, *v)].to_string()})));
                    }
                }
                // ... also where the remaining delegation shows 0 tokens: a slash by less than one keeps
                // the (sub-token) stake entry and whatever has accrued on it
                if *pct < 100 {
                    for d in 0..nm.delegators.len() as u8 {
                        if pre.keeper_rewards[&(d, *v)].is_some() && post.keeper_rewards[&(d, *v)] != pre.keeper_rewards[&(d, *v)] {
                            report("slash-changed-accrued-rewards", case("slashing by less than one leaves already accrued rewards unchanged (StakeKeeper::get_rewards)", json!({"pair": format!("d{} v{}", d + 1, v + 1), "before": format!("{:?}", pre.keeper_rewards[&(d, *v)]), "after": format!("{:?}", post.keeper_rewards[&(d, *v)]), "delegation_shown_after": post.deleg[&(d, *v)].to_string()})));
                        }
                    }
                }
                if post.bal != pre.bal || post.supply != pre.supply {
                    report("slash-changed-balances", case("slashing leaves all bank balances unchanged", json!({})));
                }
                for d in 0..nm.delegators.len() as u8 {
                    let s = h.share(d, *v).mul(&keep);
                    if s.is_zero() {
                        h.shares.remove(&(d, *v));
                    } else {
                        h.shares.insert((d, *v), s);
                    }
                    if !h.shares.contains_key(&(d, *v)) {
                        h.rewards.remove(&(d, *v));
                    }
                }
                for q in h.queue.iter_mut().filter(|q| q.v == *v) {
                    q.amount = q.amount.mul(&keep);
                    q.slashes += 1;
                }
                *h.slashed_ever.entry(*v).or_default() += 1;
            }
        }
        SOp::Advance { .. } | SOp::SetBlock { .. } | SOp::AdvanceNanos { .. } => {
            let dt_ns: u128 = match op {
                SOp::Advance { secs } | SOp::SetBlock { secs } => *secs as u128 * 1_000_000_000,
                SOp::AdvanceNanos { nanos } => *nanos as u128,
                _ => 0,
            };
            let new_now = h.now + dt_ns;
            // matured entries are paid in full (minus at most one token per slash), others not at all
            let mut lo = vec![0u128; pre.bal.len()];
            let mut hi = vec![0u128; pre.bal.len()];
            let mut rest = vec![];
            let mut matured = vec![0u32; pre.bal.len()];
            for q in h.queue.drain(..) {
                if q.payout_at <= new_now {
                    matured[q.d as usize] += 1;
                    let f = q.amount.floor_u128();
                    hi[q.d as usize] += f;
                    lo[q.d as usize] += f.saturating_sub(q.slashes as u128);
                } else {
                    rest.push(q);
                }
            }
            h.queue = rest;
            for i in 0..pre.bal.len() {
                let got = post.bal[i].wrapping_sub(pre.bal[i]);
                if post.bal[i] < pre.bal[i] || got < lo[i] || got > hi[i] {
                    let class = if matured[i] == 0 { "block-update-paid-without-matured-unbonding" } else if got < lo[i] { "matured-unbonding-underpaid" } else { "matured-unbonding-overpaid" };
                    report(class, case("an undelegated amount is paid back in full (reduced only by slashes) by the first block update at or after the unbonding period, and not before", json!({"account_index": i, "paid": (post.bal[i] as i128 - pre.bal[i] as i128).to_string(), "allowed": format!("[{}, {}]", lo[i], hi[i]), "now_ns": new_now.to_string()})));
                }
            }
            if post.deleg != pre.deleg {
                report("block-update-changed-delegations", case("a block update does not change delegations", json!({"before": format!("{:?}", pre.deleg), "after": format!("{:?}", post.deleg)})));
            }
            if cfg.check_rewards {
                h.accrue(dt_ns, nm);
            }
            h.now = new_now;
        }
    }
    // ---- rewards bound (C15)
    if cfg.check_rewards {
        for ((d, v), acc) in &h.rewards {
            if post.deleg.get(&(*d, *v)).copied().unwrap_or(0) == 0 {
                continue;
            }
            let total = acc.withdrawn + post.pending[&(*d, *v)];
            let up = acc.up.clone().unwrap_or_else(Rat::zero);
            let low = acc.low.clone().unwrap_or_else(Rat::zero);
            if !Rat::int(total).lt(&up) && Rat::int(total) != up {
                report("rewards-overpaid", case("withdrawn plus pending never exceeds stake x rate x (1 - commission) x time / year", json!({"pair": format!("d{} v{}", d + 1, v + 1), "withdrawn_plus_pending": total.to_string(), "bound": up.show(), "bound_approx": up.to_f64()})));
            }
            // total > low - (withdrawals + 1), admitting the 18-decimal fixed-point rounding the
            // statement itself refers to ("far below one token"): 1e-9 of a token
            let slack = Rat::int(acc.withdrawals as u128 + 1).add(&Rat::new(1u64, 1_000_000_000u64));
            if !low.sub(&slack).lt(&Rat::int(total)) {
                report("rewards-underpaid", case("withdrawn plus pending falls short of the linear amount by less than one token per withdrawal plus one", json!({"pair": format!("d{} v{}", d + 1, v + 1), "withdrawn_plus_pending": total.to_string(), "lower_bound_exclusive": low.sub(&slack).show(), "withdrawals": acc.withdrawals})));
            }
        }
    }
    if clause_violations.get() > 0 {
        return Step { next: None, ok, tolerated_err };
    }
    let next = SState { storage: app.storage().clone(), block: app.block_info(), hidden: h, obs: post, path };
    Step { next: Some(next), ok, tolerated_err }
}

/// Which clause classes belong to which property (a clause of another property observed while
/// exploring is not this check's verdict).
pub fn home(prop: &str, class: &str) -> bool {
    let c15 = class.starts_with("withdraw-") || class.starts_with("rewards-") || class.starts_with("reward-") || class.ends_with(":withdraw") || class == "set-withdraw-address-rejected" || class.ends_with(":set-withdraw-address");
    let c16 = class.starts_with("slash-") || class.ends_with(":slash") || class.contains(":slash:") || class == "valid-slash-rejected";
    let generic = class.starts_with("replay-") || class.starts_with("panic-or-error-in-query");
    match prop {
        "c15" => c15 || generic,
        // (payouts of slashed unbondings are judged in C16's sweep, where one block update matures
        // everything pending, not during the exploration: see `home_c16_sweep`)
        "c16" => c16 || generic,
        _ => (!c15 && !c16) || class.starts_with("panic-"),
    }
}

pub fn home_c16_sweep(class: &str) -> bool {
    home("c16", class) || class.starts_with("matured-unbonding-")
}

fn panic_site(p: &str) -> String {
    // a stable, short signature of the panic message (its first words)
    p.split_whitespace().take(6).collect::<Vec<_>>().join("-").chars().filter(|c| c.is_ascii_alphanumeric() || *c == '-').collect()
}

fn op_kind(o: &SOp) -> &'static str {
    match o {
        SOp::Delegate { .. } => "delegate",
        SOp::Undelegate { .. } => "undelegate",
        SOp::Redelegate { .. } | SOp::RedelegateForeign { .. } => "redelegate",
        SOp::Withdraw { .. } => "withdraw",
        SOp::SetWithdraw { .. } => "set-withdraw-address",
        SOp::Slash { .. } => "slash",
        SOp::Advance { .. } | SOp::AdvanceNanos { .. } => "update_block",
        SOp::SetBlock { .. } => "set_block",
        SOp::ReAddValidator { .. } => "add-validator-again",
    }
}

// ---------------------------------------------------------------------------------------------
// exploration

pub struct ExpOut {
    pub states: u64,
    pub transitions: u64,
    pub depth: usize,
    pub layers: Vec<u64>,
    pub replays: u64,
    pub ok: u64,
    pub err: u64,
    pub tolerated: u64,
    pub caps: Vec<String>,
    pub samples: Vec<Value>,
    pub all: Vec<SState>,
}

fn state_key(s: &SState) -> u128 {
    hash128(&(&s.storage.data, s.block.time.nanos(), s.block.height, &s.hidden))
}

pub fn explore(ctx: &Ctx, nm: &Names, alpha: &[SOp], max_depth: usize, cfg: &Cfg, keep_all: bool, max_states: usize) -> ExpOut {
    let mut app0 = build(nm, cfg);
    let obs0 = match observe(&app0, nm) {
        Ok(o) => o,
        Err(e) => {
            // the subject's queries fail or panic on a freshly built chain: a verdict, not a harness problem
            ctx.violation(
                &format!("{}:panic-or-error-in-query:freshly-built-chain", cfg.prop.to_lowercase()),
                json!({"engine": "staking", "history": [], "error": e, "unbonding_s": cfg.unbonding, "apr_pct": cfg.apr_pct, "validators_registered_ahead_s": cfg.reg_ahead_s, "initial_funds": cfg.funds.to_string(), "clause": "staking queries answer on a freshly built chain (no operation made yet)"}),
            );
            return ExpOut { states: 0, transitions: 0, depth: 0, layers: vec![], replays: 0, ok: 0, err: 0, tolerated: 0, caps: vec![], samples: vec![], all: vec![] };
        }
    };
    // process_queue writes its (empty) queue on the first block update; start from a settled state
    let b0 = app0.block_info();
    app0.set_block(b0.clone());
    let root = SState { storage: app0.storage().clone(), block: b0, hidden: Hidden { reward_start_ns: cfg.reg_ahead_s as u128 * 1_000_000_000, ..Hidden::default() }, obs: obs0, path: vec![] };
    let seen = KeySet::new();
    seen.insert(state_key(&root));
    let mut frontier = vec![root.clone()];
    let mut out = ExpOut { states: 1, transitions: 0, depth: 0, layers: vec![1], replays: 0, ok: 0, err: 0, tolerated: 0, caps: vec![], samples: vec![], all: vec![root] };
    let prop = cfg.prop.to_lowercase();
    while out.depth < max_depth && !frontier.is_empty() {
        if ctx.elapsed() > ctx.budget_s() {
            out.caps.push(format!("wall-clock budget reached after completing depth {}", out.depth));
            break;
        }
        if rss_gb() > rss_cap_gb() {
            out.caps.push(format!("resident-memory cap {} GiB reached after completing depth {}", rss_cap_gb(), out.depth));
            break;
        }
        if ctx.vio_count.load(std::sync::atomic::Ordering::Relaxed) > 0 {
            out.caps.push(format!("stopped after depth {} because violations were found (breadth-first: they are shortest ones)", out.depth));
            break;
        }
        let mem_stop = std::sync::atomic::AtomicBool::new(false);
        let results: Vec<(Vec<SState>, u64, u64, u64)> = frontier
            .par_chunks(16)
            .map(|ch| {
                let mut app = build(nm, cfg);
                let mut v = vec![];
                let (mut n_ok, mut n_err, mut n_tol) = (0u64, 0u64, 0u64);
                for s in ch {
                    if mem_stop.load(std::sync::atomic::Ordering::Relaxed) {
                        break;
                    }
                    if rss_gb() > 1.5 * rss_cap_gb() {
                        mem_stop.store(true, std::sync::atomic::Ordering::Relaxed);
                        break;
                    }
                    for op in alpha {
                        let mut rep = |class: &str, detail: Value| {
                            if home(&prop, class) || (cfg.payout_is_home && class.starts_with("matured-unbonding-")) {
                                ctx.violation(&format!("{}:{}", prop, class), detail)
                            }
                        };
                        let r = step(&mut app, nm, s, op, cfg, alpha, &mut rep);
                        if r.ok {
                            n_ok += 1
                        } else {
                            n_err += 1
                        }
                        if r.tolerated_err {
                            n_tol += 1
                        }
                        if let Some(s) = r.next {
                            if seen.insert(state_key(&s)) {
                                v.push(s);
                            }
                        }
                    }
                }
                (v, n_ok, n_err, n_tol)
            })
            .collect();
        let mut next = vec![];
        for (v, n_ok, n_err, n_tol) in results {
            out.transitions += n_ok + n_err;
            out.ok += n_ok;
            out.err += n_err;
            out.tolerated += n_tol;
            next.extend(v);
        }
        if mem_stop.load(std::sync::atomic::Ordering::Relaxed) {
            out.caps.push(format!("resident-memory guard hit inside depth {}: that layer is incomplete", out.depth + 1));
            break;
        }
        out.depth += 1;
        out.layers.push(next.len() as u64);
        // replay validation: witness path from genesis on one app without snapshot restore
        let rv: u64 = next
            .par_chunks(32)
            .map(|ch| {
                let mut n = 0u64;
                for s in ch {
                    let mut app = build(nm, cfg);
                    let b0 = app.block_info();
                    app.set_block(b0);
                    let quiet_cfg = Cfg { check_rewards: false, prop: cfg.prop.clone(), funds: cfg.funds, unbonding: cfg.unbonding, payout_is_home: false, apr_pct: cfg.apr_pct, reg_ahead_s: cfg.reg_ahead_s };
                    let mut cur = SState { storage: app.storage().clone(), block: app.block_info(), hidden: Hidden::default(), obs: Obs::default(), path: vec![] };
                    cur.obs = observe(&app, nm).unwrap_or_default();
                    let mut good = true;
                    for oi in &s.path {
                        let mut sink = |_: &str, _: Value| {};
                        match step(&mut app, nm, &cur, &alpha[*oi as usize], &quiet_cfg, alpha, &mut sink).next {
                            Some(nx) => cur = nx,
                            None => {
                                good = false;
                                break;
                            }
                        }
                    }
                    n += 1;
                    if good && (cur.storage.data != s.storage.data || cur.block != s.block) && ctx.id == "C19" {
                        ctx.violation("c19:replay-from-genesis-differs-from-snapshot-derived-state:staking", json!({"engine": "staking", "history": s.path.iter().map(|i| sop_label(&alpha[*i as usize])).collect::<Vec<_>>()}));
                    }
                }
                n
            })
            .sum();
        out.replays += rv;
        if out.samples.len() < 3 && !next.is_empty() {
            let s = &next[(next.len() * 2) / 3];
            out.samples.push(json!({"history": s.path.iter().map(|i| sop_label(&alpha[*i as usize])).collect::<Vec<_>>(), "delegations_shown": format!("{:?}", s.obs.deleg), "balances": format!("{:?}", s.obs.bal)}));
        }
        if keep_all {
            out.all.extend(next.iter().cloned());
        }
        out.states = seen.len() as u64;
        if seen.len() > max_states {
            out.caps.push(format!("state cap {} reached after completing depth {}", max_states, out.depth));
            break;
        }
        frontier = next;
    }
    if out.samples.is_empty() {
        out.samples.push(json!({"history": []}));
    }
    out
}

pub fn alphabet_c14(tier: Tier, full: bool) -> Vec<SOp> {
    let mut v = vec![
        SOp::Delegate { d: 0, v: 0, amt: 1, denom: 0 },
        SOp::Delegate { d: 1, v: 0, amt: 2, denom: 0 },
        SOp::Undelegate { d: 1, v: 0, amt: 1, denom: 0 },
        SOp::Undelegate { d: 0, v: 0, amt: 1, denom: 0 },
        SOp::Slash { v: 0, pct: 50 },
        SOp::Advance { secs: UNBONDING },
        SOp::Redelegate { d: 1, src: 0, dst: 1, amt: 1 },
        SOp::Withdraw { d: 0, v: 0 },
        SOp::Advance { secs: UNBONDING - 1 },
        // half a second short of the unbonding period: block times are not whole seconds (the default
        // block time ends in .879 s), so "not before" is decided below the second
        SOp::AdvanceNanos { nanos: UNBONDING * 1_000_000_000 - 500_000_000 },
        SOp::Delegate { d: 0, v: 1, amt: 2, denom: 0 },
        SOp::Undelegate { d: 1, v: 0, amt: 2, denom: 0 },
        SOp::Slash { v: 0, pct: 100 },
        SOp::Undelegate { d: 0, v: 1, amt: 1, denom: 0 },
        // a block update made with set_block (not update_block) that reaches the unbonding period
        SOp::SetBlock { secs: UNBONDING },
    ];
    if full || tier == Tier::Thorough {
        v.extend([
            SOp::Slash { v: 0, pct: 25 },
            SOp::Slash { v: 1, pct: 50 },
            SOp::Advance { secs: YEAR },
            SOp::SetBlock { secs: 1 },
            SOp::SetWithdraw { d: 0, to: 0 },
            SOp::Redelegate { d: 0, src: 1, dst: 0, amt: 1 },
            SOp::Redelegate { d: 1, src: 0, dst: 0, amt: 1 },
            SOp::Undelegate { d: 0, v: 1, amt: 1, denom: 0 },
            SOp::Withdraw { d: 1, v: 0 },
        ]);
    }
    v
}

/// Invalid operations: checked once in every explored state (they never change state).
pub fn invalid_ops() -> Vec<SOp> {
    vec![
        SOp::Delegate { d: 0, v: 0, amt: 0, denom: 0 },
        SOp::Delegate { d: 0, v: 0, amt: 1, denom: 1 },
        SOp::Delegate { d: 0, v: 2, amt: 1, denom: 0 },
        SOp::Delegate { d: 0, v: 0, amt: 1_000_000, denom: 0 },
        SOp::Undelegate { d: 0, v: 0, amt: 0, denom: 0 },
        SOp::Undelegate { d: 1, v: 0, amt: 1, denom: 1 },
        SOp::Undelegate { d: 0, v: 2, amt: 1, denom: 0 },
        SOp::Undelegate { d: 0, v: 0, amt: 1_000, denom: 0 },
        SOp::Undelegate { d: 1, v: 1, amt: 3, denom: 0 },
        SOp::Redelegate { d: 1, src: 0, dst: 1, amt: 1_000 },
        SOp::Redelegate { d: 0, src: 2, dst: 0, amt: 1 },
        SOp::Redelegate { d: 0, src: 0, dst: 2, amt: 1 },
        // source and destination the same validator: still more than is delegated / unknown
        SOp::Redelegate { d: 0, src: 0, dst: 0, amt: 1_000 },
        SOp::Redelegate { d: 1, src: 1, dst: 1, amt: 1_000 },
        SOp::Redelegate { d: 0, src: 2, dst: 2, amt: 1 },
        SOp::RedelegateForeign { d: 0, src: 0, dst: 1, amt: 1 },
        SOp::RedelegateForeign { d: 1, src: 0, dst: 1, amt: 1 },
        SOp::RedelegateForeign { d: 1, src: 1, dst: 0, amt: 2 },
        SOp::Slash { v: 0, pct: 150 },
        SOp::Slash { v: 0, pct: 101 },
        SOp::Slash { v: 2, pct: 50 },
        SOp::Withdraw { d: 0, v: 2 },
        SOp::Advance { secs: 0 },
    ]
}

fn invalid_sweep(ctx: &Ctx, nm: &Names, states: &[SState], alpha: &[SOp], cfg: &Cfg) -> u64 {
    let inv = invalid_ops();
    let mut all_ops: Vec<SOp> = alpha.to_vec();
    all_ops.extend(inv.iter().cloned());
    let prop = cfg.prop.to_lowercase();
    states
        .par_chunks(32)
        .map(|ch| {
            let mut app = build(nm, cfg);
            let mut n = 0u64;
            for s in ch {
                for op in &inv {
                    let mut rep = |class: &str, detail: Value| {
                        if home(&prop, class) || (cfg.payout_is_home && class.starts_with("matured-unbonding-")) {
                            ctx.violation(&format!("{}:{}", prop, class), detail)
                        }
                    };
                    let r = step(&mut app, nm, s, op, cfg, &all_ops, &mut rep);
                    n += 1;
                    if let Some(nx) = r.next {
                        if !matches!(op, SOp::Advance { .. }) && nx.storage.data != s.storage.data {
                            // already reported by must_fail; nothing more to do
                        }
                    }
                }
            }
            n
        })
        .sum()
}

#[allow(clippy::too_many_arguments)]
fn finish(ctx: &Ctx, outs: Vec<(&str, &ExpOut, Vec<String>)>, extra_evals: u64, bounds: Value, assumptions: Vec<String>) -> i32 {
    let mut states = 0;
    let mut transitions = 0;
    let mut replays = 0;
    let mut caps = vec![];
    let mut parts = vec![];
    let mut samples = vec![];
    for (name, o, alpha) in &outs {
        states += o.states;
        transitions += o.transitions;
        replays += o.replays;
        caps.extend(o.caps.iter().cloned());
        samples.extend(o.samples.iter().cloned());
        parts.push(json!({"exploration": name, "states": o.states, "transitions": o.transitions, "depth_completed": o.depth, "new_states_per_layer": o.layers, "ok_transitions": o.ok, "err_transitions": o.err,
            "valid_undelegations_that_failed_in_states_with_fractional_shares (tolerated)": o.tolerated, "replays_validated": o.replays, "operations": alpha}));
    }
    samples.truncate(4);
    let coverage = json!({
        "states": states,
        "transitions": transitions + extra_evals,
        "traces_validated_against_impl": replays,
        "evaluations": transitions + extra_evals,
        "distinct_nontrivial": states,
        "rule": "layered BFS over staking histories; state = raw storage + block (+ hidden exact model); one transition = snapshot restore + one operation on the real App, then the per-operation relation between observed pre-state, exact-rational model and observed post-state is checked (intervals where the statement leaves a tolerance); every new state's history is replayed from genesis without snapshots; invalid operations are tried in every explored state",
        "exhaustive": caps.is_empty(),
        "explorations": parts,
        "bounds": bounds,
        "caps_hit": caps,
        "samples": samples,
    });
    ctx.finish(coverage, assumptions)
}

fn std_assumptions() -> Vec<String> {
    vec![
        "two delegators, two validators (10% and 0% commission), bonded denomination ustake, unbonding 50 s, apr 12% (none of them the module default), staking parameters fixed at setup".into(),
        "amounts and time spans far from the overflow range of the 18-decimal fixed point (excluded by the statements)".into(),
        "a listed delegation of amount zero is treated as absent".into(),
    ]
}

/// In every explored state with at least two pending unbondings: a block update that lands exactly
/// on the earliest maturity, directly and after a slash of either validator in between - the
/// unbonding that is due is paid by that update (whatever else is queued, in whatever order),
/// the others are not.
fn maturity_sweep(ctx: &Ctx, nm: &Names, states: &[SState], alpha: &[SOp], cfg: &Cfg) -> u64 {
    let prop = cfg.prop.to_lowercase();
    states
        .par_chunks(32)
        .map(|ch| {
            let mut app = build(nm, cfg);
            let mut n = 0u64;
            for s in ch {
                if s.hidden.queue.len() < 2 {
                    continue;
                }
                let t_min = s.hidden.queue.iter().map(|q| q.payout_at).min().unwrap();
                if t_min <= s.hidden.now || t_min - s.hidden.now > u64::MAX as u128 {
                    continue;
                }
                let adv = SOp::AdvanceNanos { nanos: (t_min - s.hidden.now) as u64 };
                let mut all_ops = alpha.to_vec();
                all_ops.push(adv.clone());
                let mut rep = |class: &str, detail: Value| {
                    if home(&prop, class) {
                        ctx.violation(&format!("{}:{}", prop, class), detail)
                    }
                };
                let _ = step(&mut app, nm, s, &adv, cfg, &all_ops, &mut rep);
                n += 1;
                for v in 0..2u8 {
                    let r = step(&mut app, nm, s, &SOp::Slash { v, pct: 50 }, cfg, &all_ops, &mut rep);
                    n += 1;
                    if let Some(s1) = r.next {
                        let _ = step(&mut app, nm, &s1, &adv, cfg, &all_ops, &mut rep);
                        n += 1;
                    }
                }
            }
            n
        })
        .sum()
}

/// For C01: staking sudo calls that are refused (a slash fraction above one, an unknown validator)
/// in every staking state of a small exploration, with time having passed since the last reward
/// settlement; a refused call must leave every byte of the chain state as it was. Returns the
/// number of refused calls checked.
pub fn rejected_sudo_sweep(ctx: &Ctx, depth: usize) -> u64 {
    let nm = names();
    let quiet = Ctx::new("C16", ctx.tier);
    let cfg = Cfg { check_rewards: false, prop: "C16".into(), funds: 10, unbonding: UNBONDING, payout_is_home: false, apr_pct: APR_PCT, reg_ahead_s: 0 };
    let alpha = alphabet_c16();
    let out = explore(&quiet, &nm, &alpha, depth, &cfg, true, 200_000);
    let bad = [SOp::Slash { v: 0, pct: 150 }, SOp::Slash { v: 1, pct: 101 }, SOp::Slash { v: 2, pct: 50 }];
    let mut all_ops = alpha.clone();
    all_ops.extend(bad.iter().cloned());
    out.all
        .par_chunks(32)
        .map(|ch| {
            let mut app = build(&nm, &cfg);
            let mut n = 0u64;
            for s in ch {
                for op in &bad {
                    let mut rep = |class: &str, detail: Value| {
                        if class.starts_with("rejected-operation-changed-state") {
                            ctx.violation("c01:StateOnErr:staking-sudo", json!({"engine": "staking", "what": "a refused sudo(Staking) call changed the chain state", "detail": detail}));
                        }
                    };
                    let _ = step(&mut app, &nm, s, op, &cfg, &all_ops, &mut rep);
                    n += 1;
                }
            }
            n
        })
        .sum()
}

pub fn run_c14(ctx: &Ctx) -> i32 {
    let nm = names();
    let cfg = Cfg { check_rewards: false, prop: "C14".into(), funds: 10, unbonding: UNBONDING, payout_is_home: false, apr_pct: APR_PCT, reg_ahead_s: 0 };
    let reduced = alphabet_c14(Tier::Quick, false);
    let (d_reduced, d_full) = ctx.tier.pick((6, 0), (7, 6));
    let out1 = explore(ctx, &nm, &reduced, d_reduced, &cfg, true, ctx.tier.pick(600_000, 3_000_000));
    let n1 = invalid_sweep(ctx, &nm, &out1.all, &reduced, &cfg) + maturity_sweep(ctx, &nm, &out1.all, &reduced, &cfg);
    let mut outs = vec![("reduced-alphabet", &out1, reduced.iter().map(sop_label).collect::<Vec<_>>())];
    let full = alphabet_c14(Tier::Thorough, true);
    let out2;
    let mut n2 = 0;
    if d_full > 0 {
        out2 = explore(ctx, &nm, &full, d_full, &cfg, true, 3_000_000);
        n2 = invalid_sweep(ctx, &nm, &out2.all, &full, &cfg) + maturity_sweep(ctx, &nm, &out2.all, &full, &cfg);
        outs.push(("full-alphabet", &out2, full.iter().map(sop_label).collect::<Vec<_>>()));
    }
    // an annual rate of zero (a staking parameter like any other): everything about delegations,
    // unbondings and the refusal of invalid operations holds unchanged
    let cfg0 = Cfg { check_rewards: false, prop: "C14".into(), funds: 10, unbonding: UNBONDING, payout_is_home: false, apr_pct: 0, reg_ahead_s: 0 };
    let out0 = explore(ctx, &nm, &reduced, ctx.tier.pick(3, 5), &cfg0, true, 1_000_000);
    let n0 = invalid_sweep(ctx, &nm, &out0.all, &reduced, &cfg0);
    outs.push(("rate-zero", &out0, reduced.iter().map(sop_label).collect::<Vec<_>>()));
    let n1 = n1 + n0;
    // an unbonding period of zero: an undelegated amount is due at once, and the very next block
    // update pays it - also one that only bumps the height, or sets the same block again
    let alpha_u0 = vec![
        SOp::Delegate { d: 0, v: 0, amt: 2, denom: 0 },
        SOp::Delegate { d: 1, v: 0, amt: 3, denom: 0 },
        SOp::Undelegate { d: 0, v: 0, amt: 1, denom: 0 },
        SOp::Undelegate { d: 1, v: 0, amt: 2, denom: 0 },
        SOp::Advance { secs: 0 },
        SOp::SetBlock { secs: 0 },
        SOp::Advance { secs: 1 },
        SOp::Slash { v: 0, pct: 50 },
    ];
    let cfg_u0 = Cfg { check_rewards: false, prop: "C14".into(), funds: 10, unbonding: 0, payout_is_home: false, apr_pct: APR_PCT, reg_ahead_s: 0 };
    let out_u0 = explore(ctx, &nm, &alpha_u0, ctx.tier.pick(4, 6), &cfg_u0, true, 1_000_000);
    outs.push(("unbonding-period-zero", &out_u0, alpha_u0.iter().map(sop_label).collect::<Vec<_>>()));
    finish(ctx, outs, n1 + n2, json!({"maturity_sweep": "in every state with two or more pending unbondings: a block update landing exactly on the earliest maturity, directly and after a 50% slash of either validator", "depth_reduced_alphabet": d_reduced, "depth_full_alphabet": d_full, "invalid_operations_tried_in_every_state": invalid_ops().iter().map(sop_label).collect::<Vec<_>>()}), std_assumptions())
}

pub fn alphabet_c16() -> Vec<SOp> {
    vec![
        SOp::Delegate { d: 0, v: 0, amt: 3, denom: 0 },
        SOp::Delegate { d: 1, v: 0, amt: 2, denom: 0 },
        SOp::Delegate { d: 1, v: 1, amt: 4, denom: 0 },
        SOp::Undelegate { d: 0, v: 0, amt: 1, denom: 0 },
        SOp::Undelegate { d: 1, v: 1, amt: 2, denom: 0 },
        // several unbondings pending from ONE validator, the one queued last the smallest
        SOp::Undelegate { d: 0, v: 0, amt: 2, denom: 0 },
        SOp::Undelegate { d: 1, v: 0, amt: 1, denom: 0 },
        SOp::Redelegate { d: 1, src: 1, dst: 0, amt: 1 },
        SOp::ReAddValidator { v: 0 },
        SOp::Advance { secs: 30 },
        // long enough for a few tokens of stake to accrue whole tokens of reward
        SOp::Advance { secs: 10 * YEAR },
        SOp::Slash { v: 0, pct: 50 },
        SOp::Slash { v: 1, pct: 10 },
    ]
}

pub fn run_c16(ctx: &Ctx) -> i32 {
    let nm = names();
    let cfg = Cfg { check_rewards: false, prop: "C16".into(), funds: 10, unbonding: UNBONDING, payout_is_home: false, apr_pct: APR_PCT, reg_ahead_s: 0 };
    let alpha = alphabet_c16();
    let depth = ctx.tier.pick(4, 5);
    let out = explore(ctx, &nm, &alpha, depth, &cfg, true, 2_000_000);
    // in every explored state: every slash fraction on every validator (and an unknown one),
    // followed by enough block updates to mature all unbondings
    let fractions = [0u32, 10, 25, 50, 99, 100, 101, 200];
    let mut slash_ops: Vec<SOp> = vec![];
    for v in 0..3u8 {
        for p in fractions {
            slash_ops.push(SOp::Slash { v, pct: p });
        }
    }
    let mut all_ops = alpha.clone();
    all_ops.extend(slash_ops.iter().cloned());
    all_ops.push(SOp::Advance { secs: UNBONDING });
    all_ops.push(SOp::Slash { v: 0, pct: 25 });
    let n: u64 = out
        .all
        .par_chunks(16)
        .map(|ch| {
            let mut app = build(&nm, &cfg);
            let mut n = 0u64;
            for s in ch {
                for op in &slash_ops {
                    let mut rep = |class: &str, detail: Value| {
                        if home_c16_sweep(class) {
                            ctx.violation(&format!("c16:{}", class), detail)
                        }
                    };
                    let r = step(&mut app, &nm, s, op, &cfg, &all_ops, &mut rep);
                    n += 1;
                    // repeated slash composes, then maturity pays within the interval
                    if let Some(s1) = r.next {
                        if r.ok {
                            let r2 = step(&mut app, &nm, &s1, &SOp::Slash { v: 0, pct: 25 }, &cfg, &all_ops, &mut rep);
                            n += 1;
                            let s2 = r2.next.unwrap_or(s1);
                            let _ = step(&mut app, &nm, &s2, &SOp::Advance { secs: UNBONDING }, &cfg, &all_ops, &mut rep);
                            n += 1;
                        }
                    }
                }
            }
            n
        })
        .sum();
    // block times below the second with stakes large enough that a tenth of a second of reward is
    // worth hundreds of tokens: what has accrued up to the very moment of the slash stays
    let big = 1_000_000_000_000u128;
    let alpha2 = vec![
        SOp::Delegate { d: 0, v: 0, amt: big, denom: 0 },
        SOp::Delegate { d: 1, v: 0, amt: 3 * big, denom: 0 },
        SOp::AdvanceNanos { nanos: 100_000_000 },
        SOp::AdvanceNanos { nanos: 750_000_000 },
        SOp::Slash { v: 0, pct: 50 },
        SOp::Slash { v: 0, pct: 10 },
        SOp::Undelegate { d: 1, v: 0, amt: big, denom: 0 },
    ];
    let cfg2 = Cfg { check_rewards: false, prop: "C16".into(), funds: 10 * big, unbonding: UNBONDING, payout_is_home: false, apr_pct: APR_PCT, reg_ahead_s: 0 };
    let out2 = explore(ctx, &nm, &alpha2, ctx.tier.pick(4, 6), &cfg2, false, 2_000_000);
    // an unbonding period of zero: an unbonding is mature the moment it is queued, yet pending (and
    // to be slashed) until the next block update pays it
    let alpha3 = vec![
        SOp::Delegate { d: 0, v: 0, amt: 4, denom: 0 },
        SOp::Delegate { d: 1, v: 0, amt: 3, denom: 0 },
        SOp::Undelegate { d: 0, v: 0, amt: 2, denom: 0 },
        SOp::Undelegate { d: 1, v: 0, amt: 1, denom: 0 },
        SOp::Slash { v: 0, pct: 50 },
        SOp::Slash { v: 0, pct: 100 },
        SOp::Advance { secs: 0 },
        SOp::Advance { secs: 1 },
    ];
    let cfg3 = Cfg { check_rewards: false, prop: "C16".into(), funds: 10, unbonding: 0, payout_is_home: true, apr_pct: APR_PCT, reg_ahead_s: 0 };
    let out3 = explore(ctx, &nm, &alpha3, ctx.tier.pick(4, 6), &cfg3, false, 2_000_000);
    finish(
        ctx,
        vec![("slash-histories", &out, alpha.iter().map(sop_label).collect::<Vec<_>>()), ("sub-second-block-times-large-stakes", &out2, alpha2.iter().map(sop_label).collect::<Vec<_>>()), ("unbonding-period-zero", &out3, alpha3.iter().map(sop_label).collect::<Vec<_>>())],
        n,
        json!({"depth": depth, "slash_fractions_tried_in_every_state": fractions, "validators": ["v1", "v2", "unknown"], "then": "a second slash (25% of v1) and a block update maturing all unbondings"}),
        {
            let mut a = std_assumptions();
            a.push("second exploration: block steps of 0.1 s and 0.75 s with stakes of 10^12 and 3*10^12; third exploration: unbonding period 0 s".into());
            a
        },
    )
}

pub fn alphabet_c15(tier: Tier) -> Vec<SOp> {
    let mut v = vec![
        SOp::Delegate { d: 0, v: 0, amt: 100, denom: 0 },
        SOp::Delegate { d: 1, v: 0, amt: 333, denom: 0 },
        SOp::Delegate { d: 1, v: 1, amt: 100, denom: 0 },
        SOp::Advance { secs: YEAR / 3 },
        SOp::Advance { secs: YEAR / 2 },
        SOp::Advance { secs: 1 },
        SOp::Withdraw { d: 0, v: 0 },
        SOp::Withdraw { d: 1, v: 0 },
        SOp::Undelegate { d: 1, v: 0, amt: 100, denom: 0 },
        SOp::SetWithdraw { d: 0, to: 0 },
        // part of a delegation moved to the other validator: what accrued at the source stays
        SOp::Redelegate { d: 1, src: 0, dst: 1, amt: 100 },
    ];
    if tier == Tier::Thorough {
        v.extend([SOp::Advance { secs: YEAR }, SOp::Slash { v: 0, pct: 50 }, SOp::SetWithdraw { d: 0, to: 9 }, SOp::Withdraw { d: 1, v: 1 }, SOp::Undelegate { d: 0, v: 0, amt: 100, denom: 0 }, SOp::Redelegate { d: 0, src: 0, dst: 1, amt: 40 }]);
    } else {
        v.push(SOp::Slash { v: 0, pct: 50 });
    }
    v
}

pub fn run_c15(ctx: &Ctx) -> i32 {
    let nm = names();
    let cfg = Cfg { check_rewards: true, prop: "C15".into(), funds: 1000, unbonding: UNBONDING, payout_is_home: false, apr_pct: APR_PCT, reg_ahead_s: 0 };
    let alpha = alphabet_c15(ctx.tier);
    let depth = ctx.tier.pick(5, 6);
    let out = explore(ctx, &nm, &alpha, depth, &cfg, true, 3_000_000);
    // path independence: in every explored state, every advance step is also run split into 2 and 3 block updates
    let steps: Vec<u64> = vec![YEAR / 3, YEAR / 2, YEAR, 7];
    let mut all_ops = alpha.clone();
    for s in &steps {
        for k in [1u64, 2, 3] {
            let part = s / k;
            if !all_ops.contains(&SOp::Advance { secs: part }) {
                all_ops.push(SOp::Advance { secs: part });
            }
            let rem = s - part * (k - 1);
            if !all_ops.contains(&SOp::Advance { secs: rem }) {
                all_ops.push(SOp::Advance { secs: rem });
            }
        }
    }
    let n: u64 = out
        .all
        .par_chunks(16)
        .map(|ch| {
            let mut app = build(&nm, &cfg);
            let mut n = 0u64;
            for s in ch {
                if s.obs.deleg.values().all(|v| *v == 0) {
                    continue;
                }
                for total in &steps {
                    let mut finals: Vec<(u64, Obs, BTreeMap<(u8, u8), RewardAcc>)> = vec![];
                    for k in [1u64, 2, 3] {
                        let part = total / k;
                        let mut cur = s.clone();
                        let mut okay = true;
                        for j in 0..k {
                            let secs = if j + 1 == k { total - part * (k - 1) } else { part };
                            let mut rep = |class: &str, detail: Value| {
                                if home("c15", class) {
                                    ctx.violation(&format!("c15:{}", class), detail)
                                }
                            };
                            match step(&mut app, &nm, &cur, &SOp::Advance { secs }, &cfg, &all_ops, &mut rep).next {
                                Some(nx) => cur = nx,
                                None => {
                                    okay = false;
                                    break;
                                }
                            }
                            n += 1;
                        }
                        if okay {
                            finals.push((k, cur.obs.clone(), cur.hidden.rewards.clone()));
                        }
                    }
                    if let Some((_, base, _)) = finals.first() {
                        for (k, o, racc) in &finals[1..] {
                            for (pair, p) in &o.pending {
                                let q = base.pending[pair];
                                let diff = if *p > q { p - q } else { q - p };
                                // +-1 admitted only when the exact reward is within 1e-9 of a whole token
                                let near_whole = racc.get(pair).and_then(|a| a.up.clone()).map_or(false, |u| {
                                    let total_up = u.to_f64();
                                    (total_up - total_up.round()).abs() < 1e-9
                                });
                                if diff > 1 || (diff == 1 && !near_whole) {
                                    ctx.violation(
                                        "c15:reward-depends-on-block-split",
                                        json!({"engine": "staking", "history": s.path.iter().map(|i| sop_label(&alpha[*i as usize])).collect::<Vec<_>>(), "then": format!("advance {} s in 1 vs {} block updates", total, k),
                                               "pair": format!("d{} v{}", pair.0 + 1, pair.1 + 1), "pending_unsplit": q.to_string(), "pending_split": p.to_string()}),
                                    );
                                }
                            }
                        }
                    }
                }
            }
            n
        })
        .sum();
    // sub-second block times with stakes large enough that one second of reward is worth
    // thousands of tokens: linearity in elapsed time and independence of the block split
    let big = 1_000_000_000_000u128;
    let alpha2 = vec![
        SOp::Delegate { d: 0, v: 0, amt: big, denom: 0 },
        SOp::Delegate { d: 1, v: 0, amt: 3 * big, denom: 0 },
        SOp::AdvanceNanos { nanos: 750_000_000 },
        SOp::AdvanceNanos { nanos: 1_500_000_000 },
        SOp::AdvanceNanos { nanos: 100_000_000 },
        SOp::Advance { secs: 1 },
        SOp::Withdraw { d: 0, v: 0 },
        SOp::Withdraw { d: 1, v: 0 },
        SOp::Undelegate { d: 1, v: 0, amt: big, denom: 0 },
    ];
    let cfg2 = Cfg { check_rewards: true, prop: "C15".into(), funds: 10 * big, unbonding: UNBONDING, payout_is_home: false, apr_pct: APR_PCT, reg_ahead_s: 0 };
    let out2 = explore(ctx, &nm, &alpha2, ctx.tier.pick(5, 6), &cfg2, false, 2_000_000);
    // small odd stakes halved by a slash (1.5 and 2.5 tokens) held for a century: what the fractional
    // part of a stake earns adds up to whole tokens only over such a span
    let alpha3 = vec![
        SOp::Delegate { d: 0, v: 0, amt: 3, denom: 0 },
        SOp::Delegate { d: 1, v: 0, amt: 5, denom: 0 },
        SOp::Slash { v: 0, pct: 50 },
        SOp::Advance { secs: 100 * YEAR },
        SOp::Withdraw { d: 0, v: 0 },
        SOp::Withdraw { d: 1, v: 0 },
    ];
    let cfg3 = Cfg { check_rewards: true, prop: "C15".into(), funds: 10, unbonding: UNBONDING, payout_is_home: false, apr_pct: APR_PCT, reg_ahead_s: 0 };
    let out3 = explore(ctx, &nm, &alpha3, ctx.tier.pick(5, 6), &cfg3, false, 2_000_000);
    // validators registered oddly: with a block half a year AHEAD of the chain's clock (add_validator
    // takes the block as an argument), and with a maximum commission (5 %) below their commission: nothing accrues, and nothing is shown, before the validator's own
    // time has come; from then on rewards are linear as ever
    let alpha4 = vec![
        SOp::Delegate { d: 0, v: 0, amt: 100, denom: 0 },
        SOp::Delegate { d: 1, v: 0, amt: 333, denom: 0 },
        SOp::Advance { secs: YEAR / 3 },
        SOp::Advance { secs: YEAR / 2 },
        SOp::Withdraw { d: 0, v: 0 },
        SOp::Withdraw { d: 1, v: 0 },
        SOp::Undelegate { d: 1, v: 0, amt: 33, denom: 0 },
    ];
    let cfg4 = Cfg { check_rewards: true, prop: "C15".into(), funds: 1000, unbonding: UNBONDING, payout_is_home: false, apr_pct: APR_PCT, reg_ahead_s: YEAR / 2 };
    let out4 = explore(ctx, &nm, &alpha4, ctx.tier.pick(5, 6), &cfg4, false, 2_000_000);
    // withdraw addresses that point at each other (and back at oneself): whoever the current
    // withdraw address of the withdrawing delegator is gets the reward
    let alpha5 = vec![
        SOp::Delegate { d: 0, v: 0, amt: 100, denom: 0 },
        SOp::Delegate { d: 1, v: 0, amt: 333, denom: 0 },
        SOp::SetWithdraw { d: 0, to: 8 },
        SOp::SetWithdraw { d: 1, to: 8 },
        SOp::SetWithdraw { d: 0, to: 9 },
        SOp::SetWithdraw { d: 1, to: 0 },
        SOp::Advance { secs: YEAR / 3 },
        SOp::Withdraw { d: 0, v: 0 },
        SOp::Withdraw { d: 1, v: 0 },
    ];
    let cfg5 = Cfg { check_rewards: true, prop: "C15".into(), funds: 1000, unbonding: UNBONDING, payout_is_home: false, apr_pct: APR_PCT, reg_ahead_s: 0 };
    let out5 = explore(ctx, &nm, &alpha5, ctx.tier.pick(5, 6), &cfg5, false, 2_000_000);
    finish(
        ctx,
        vec![("reward-histories", &out, alpha.iter().map(sop_label).collect::<Vec<_>>()), ("sub-second-block-times-large-stakes", &out2, alpha2.iter().map(sop_label).collect::<Vec<_>>()), ("fractional-stakes-over-a-century", &out3, alpha3.iter().map(sop_label).collect::<Vec<_>>()), ("validators-registered-ahead-of-the-clock", &out4, alpha4.iter().map(sop_label).collect::<Vec<_>>()), ("withdraw-addresses-pointing-at-each-other", &out5, alpha5.iter().map(sop_label).collect::<Vec<_>>())],
        n,
        json!({"depth": depth, "stakes": [100, 333], "time_steps_s": [YEAR / 3, YEAR / 2, YEAR, 1], "split_variants": "every advance of {1/3 y, 1/2 y, 1 y, 7 s} from every explored state, unsplit vs split into 2 and 3 block updates"}),
        {
            let mut a = std_assumptions();
            a.push("main exploration: whole-second block times, stakes 100 / 333; second exploration: block steps of 0.1 s, 0.75 s, 1.5 s and 1 s with stakes of 10^12 and 3*10^12 (one second of reward = thousands of tokens)".into());
            a.push("rewards not withdrawn before a delegation drops to zero are outside the statement (periods of positive delegation only)".into());
            a
        },
    )
}

pub fn replay(ctx: &Ctx, case: &Value) {
    let nm = names();
    let prop = ctx.id.clone();
    let (cfg, mut all) = match prop.as_str() {
        "C15" => (Cfg { check_rewards: true, prop: prop.clone(), funds: 1000, unbonding: UNBONDING, payout_is_home: false, apr_pct: APR_PCT, reg_ahead_s: 0 }, alphabet_c15(Tier::Thorough)),
        "C16" => (Cfg { check_rewards: false, prop: prop.clone(), funds: 10, unbonding: UNBONDING, payout_is_home: false, apr_pct: APR_PCT, reg_ahead_s: 0 }, alphabet_c16()),
        _ => (Cfg { check_rewards: false, prop: prop.clone(), funds: 10, unbonding: UNBONDING, payout_is_home: false, apr_pct: APR_PCT, reg_ahead_s: 0 }, alphabet_c14(Tier::Thorough, true)),
    };
    all.extend(invalid_ops());
    for v in 0..3u8 {
        for p in [0u32, 10, 25, 50, 99, 100, 101, 200] {
            all.push(SOp::Slash { v, pct: p });
        }
    }
    for s in [YEAR / 3, YEAR / 2, YEAR, 7, 0, 100 * YEAR, UNBONDING, YEAR / 6, YEAR / 9, YEAR / 4, 3, 2, 4, 1, 10 * YEAR] {
        all.push(SOp::Advance { secs: s });
    }
    let big = 1_000_000_000_000u128;
    all.extend([SOp::AdvanceNanos { nanos: 100_000_000 }, SOp::AdvanceNanos { nanos: UNBONDING * 1_000_000_000 - 500_000_000 }, SOp::Slash { v: 0, pct: 50 }, SOp::Slash { v: 0, pct: 10 }]);
    all.extend([SOp::AdvanceNanos { nanos: 750_000_000 }, SOp::AdvanceNanos { nanos: 1_500_000_000 }, SOp::Delegate { d: 0, v: 0, amt: big, denom: 0 }, SOp::Delegate { d: 1, v: 0, amt: 3 * big, denom: 0 }, SOp::Undelegate { d: 1, v: 0, amt: big, denom: 0 }]);
    // histories of the large-stake explorations need the large initial balances
    let mut cfg = cfg;
    let hist: Vec<SOp> = case["history"].as_array().cloned().unwrap_or_default().iter().map(|o| sop_parse(o.as_str().unwrap_or(""), &all)).collect();
    if hist.iter().any(|o| matches!(o, SOp::Delegate { amt, .. } if *amt >= big)) {
        cfg.funds = 10 * big;
    }
    if let Some(a) = case["validators_registered_ahead_s"].as_u64() {
        cfg.reg_ahead_s = a;
    }
    if let Some(a) = case["apr_pct"].as_u64() {
        cfg.apr_pct = a as u32;
    }
    if let Some(u) = case["unbonding_s"].as_u64() {
        cfg.unbonding = u;
        cfg.payout_is_home = cfg.payout_is_home || (u == 0 && prop == "C16");
    }
    let mut app = build(&nm, &cfg);
    let b0 = app.block_info();
    app.set_block(b0);
    let mut cur = SState { storage: app.storage().clone(), block: app.block_info(), hidden: Hidden::default(), obs: observe(&app, &nm).unwrap_or_default(), path: vec![] };
    let lower = prop.to_lowercase();
    for o in case["history"].as_array().cloned().unwrap_or_default() {
        let op = sop_parse(o.as_str().unwrap_or(""), &all);
        let mut rep = |class: &str, detail: Value| ctx.violation(&format!("{}:{}", lower, class), detail);
        match step(&mut app, &nm, &cur, &op, &cfg, &all, &mut rep).next {
            Some(n) => {
                if std::env::var("VERIF_DEBUG").is_ok() {
                    eprintln!("after {}: deleg={:?} pending={:?} keeper={:?} bal={:?} due={:?}", sop_label(&op), n.obs.deleg, n.obs.pending, n.obs.keeper_rewards, n.obs.bal, n.hidden.rewards.iter().map(|(k, a)| (k, a.up.as_ref().map(|x| x.show()), a.low.as_ref().map(|x| x.show()), a.withdrawn)).collect::<Vec<_>>());
                }
                cur = n
            }
            None => break,
        }
    }
}
