//! Shared infrastructure: run context, verdict/evidence writing, known findings,
//! snapshot storage, hashing, panic capture.

use cosmwasm_std::{Order, Record, Storage};
use serde_json::{json, Value};
use std::cell::Cell;
use std::collections::{BTreeMap, BTreeSet};
use std::hash::{Hash, Hasher};
use std::ops::Bound;
use std::panic::{catch_unwind, AssertUnwindSafe};
use std::path::PathBuf;
use std::sync::atomic::{AtomicU64, Ordering};
use std::sync::Mutex;
use std::time::Instant;

pub fn verif_root() -> PathBuf {
    if let Ok(r) = std::env::var("VERIF_ROOT") {
        return PathBuf::from(r);
    }
    let p = PathBuf::from(concat!(env!("CARGO_MANIFEST_DIR"), "/.."));
    p.canonicalize().unwrap_or(p)
}

#[derive(Clone, Copy, PartialEq, Eq, Debug)]
pub enum Tier {
    Quick,
    Thorough,
}

impl Tier {
    pub fn name(&self) -> &'static str {
        match self {
            Tier::Quick => "quick",
            Tier::Thorough => "thorough",
        }
    }
    pub fn pick<T>(&self, q: T, t: T) -> T {
        match self {
            Tier::Quick => q,
            Tier::Thorough => t,
        }
    }
}

#[derive(Clone, Debug)]
pub struct KnownFinding {
    pub property: String,
    pub class: String,
    pub status: String,
    pub what: String,
}

pub fn load_known_findings() -> Vec<KnownFinding> {
    let p = verif_root().join("known_findings.json");
    let Ok(s) = std::fs::read_to_string(&p) else {
        return vec![];
    };
    let v: Value = serde_json::from_str(&s).expect("known_findings.json must be valid JSON");
    let mut out = vec![];
    for e in v["findings"].as_array().cloned().unwrap_or_default() {
        out.push(KnownFinding {
            property: e["property"].as_str().unwrap_or("").to_string(),
            class: e["class"].as_str().unwrap_or("").to_string(),
            status: e["status"].as_str().unwrap_or("").to_string(),
            what: e["what"].as_str().unwrap_or("").to_string(),
        });
    }
    out
}

struct VioStore {
    /// class -> (count, first detail)
    by_class: BTreeMap<String, (u64, Value)>,
}

/// Run context of one check invocation.
pub struct Ctx {
    pub id: String,
    pub tier: Tier,
    pub seed: u64,
    pub start: Instant,
    known: Vec<KnownFinding>,
    vios: Mutex<VioStore>,
    pub vio_count: AtomicU64,
    /// when set, violations are collected but nothing is written/printed (used by replay)
    pub replay_mode: bool,
}

/// violations recorded by any Ctx of this process (harness code without a Ctx at hand can ask
/// whether the run is already a failing one)
pub static VIOLATIONS_SEEN: AtomicU64 = AtomicU64::new(0);

impl Ctx {
    pub fn new(id: &str, tier: Tier) -> Ctx {
        let seed = std::env::var("VERIF_SEED")
            .ok()
            .and_then(|s| s.parse::<u64>().ok())
            .unwrap_or(0);
        Ctx {
            id: id.to_string(),
            tier,
            seed,
            start: Instant::now(),
            known: load_known_findings(),
            vios: Mutex::new(VioStore {
                by_class: BTreeMap::new(),
            }),
            vio_count: AtomicU64::new(0),
            replay_mode: false,
        }
    }

    pub fn elapsed(&self) -> f64 {
        self.start.elapsed().as_secs_f64()
    }

    /// Wall-clock budget (seconds) of this tier; engines finish whole layers/sizes only.
    pub fn budget_s(&self) -> f64 {
        if let Ok(s) = std::env::var("VERIF_BUDGET_S") {
            if let Ok(v) = s.parse::<f64>() {
                return v;
            }
        }
        self.tier.pick(150.0, 3000.0)
    }

    /// Records a violation. `class` identifies the failing input / call site class (used to match
    /// known findings and to group replays); `detail` is the replayable case.
    pub fn violation(&self, class: &str, detail: Value) {
        VIOLATIONS_SEEN.fetch_add(1, Ordering::Relaxed);
        self.vio_count.fetch_add(1, Ordering::Relaxed);
        let mut g = self.vios.lock().unwrap();
        let e = g
            .by_class
            .entry(class.to_string())
            .or_insert_with(|| (0, detail.clone()));
        e.0 += 1;
        // keep the smallest (by serialized length) witness per class for readability
        if e.0 > 1 {
            let old = e.1.to_string().len();
            let new = detail.to_string().len();
            if new < old {
                e.1 = detail;
            }
        }
    }

    pub fn violation_classes(&self) -> Vec<(String, u64, Value)> {
        let g = self.vios.lock().unwrap();
        g.by_class
            .iter()
            .map(|(k, (n, d))| (k.clone(), *n, d.clone()))
            .collect()
    }

    fn is_known(&self, class: &str) -> Option<&KnownFinding> {
        self.known
            .iter()
            .find(|k| k.property == self.id && k.status == "known" && k.class == class)
    }

    /// Writes evidence, prints verdict lines and returns the exit code.
    pub fn finish(&self, mut coverage: Value, assumptions: Vec<String>) -> i32 {
        if self.replay_mode {
            // a whole check re-run on behalf of `mc replay`: the caller reads the classes
            return 0;
        }
        let root = verif_root();
        let classes = self.violation_classes();
        let mut unknown = 0u64;
        let mut known_lines = vec![];
        let mut vio_lines = vec![];
        for (class, n, detail) in &classes {
            if let Some(k) = self.is_known(class) {
                known_lines.push(format!(
                    "KNOWN-FINDING: property={} class={} occurrences={} {}",
                    self.id, class, n, k.what
                ));
            } else {
                unknown += n;
                let dir = root.join("replays").join(&self.id);
                let _ = std::fs::create_dir_all(&dir);
                let h = hash128(&(class, detail.to_string()));
                let path = dir.join(format!("{:016x}.json", (h >> 64) as u64));
                let body = json!({
                    "property": self.id,
                    "class": class,
                    "occurrences": n,
                    "case": detail,
                });
                let _ = std::fs::write(&path, serde_json::to_string_pretty(&body).unwrap());
                vio_lines.push(format!(
                    "VIOLATION property={} replay={}",
                    self.id,
                    path.display()
                ));
                eprintln!("  class={} occurrences={}", class, n);
            }
        }
        if let Some(obj) = coverage.as_object_mut() {
            obj.insert(
                "violation_classes".into(),
                json!(classes
                    .iter()
                    .map(|(c, n, _)| json!({"class": c, "occurrences": n, "known": self.is_known(c).is_some()}))
                    .collect::<Vec<_>>()),
            );
        }
        let ev = json!({
            "property_id": self.id,
            "tier": self.tier.name(),
            "seed": self.seed,
            "level": "model_checking",
            "coverage": coverage,
            "assumptions": assumptions,
            "wall_s": (self.elapsed() * 1000.0).round() / 1000.0,
            "violations": unknown,
        });
        let evdir = root.join("evidence");
        let _ = std::fs::create_dir_all(&evdir);
        std::fs::write(
            evdir.join(format!("{}.json", self.id)),
            serde_json::to_string_pretty(&ev).unwrap(),
        )
        .expect("write evidence");
        for l in &known_lines {
            println!("{}", l);
        }
        for l in &vio_lines {
            println!("{}", l);
        }
        let cov = &ev["coverage"];
        println!(
            "{} {}: states={} transitions={} validated={} violations={} wall={:.1}s",
            self.id,
            self.tier.name(),
            cov["states"],
            cov["transitions"],
            cov["traces_validated_against_impl"],
            unknown,
            self.elapsed()
        );
        if unknown > 0 {
            1
        } else {
            0
        }
    }
}

/// Machinery failure: never a verdict.
pub fn machinery_error(msg: &str) -> ! {
    println!("MACHINERY-ERROR {}", msg);
    eprintln!("MACHINERY-ERROR {}", msg);
    std::process::exit(2);
}

// ---------------------------------------------------------------------------------------------
// hashing

pub fn hash64<T: Hash + ?Sized>(t: &T, salt: u64) -> u64 {
    #[allow(deprecated)]
    let mut h = std::hash::SipHasher::new_with_keys(0x5eed_0000_0000_0001 ^ salt, 0x9e37_79b9_7f4a_7c15);
    t.hash(&mut h);
    h.finish()
}

pub fn hash128<T: Hash + ?Sized>(t: &T) -> u128 {
    ((hash64(t, 1) as u128) << 64) | (hash64(t, 2) as u128)
}

// ---------------------------------------------------------------------------------------------
// panic capture

pub fn install_silent_panic_hook() {
    std::panic::set_hook(Box::new(|_| {}));
}

/// Runs `f`, converting a panic into Err(message).
pub fn catch<T>(f: impl FnOnce() -> T) -> Result<T, String> {
    match catch_unwind(AssertUnwindSafe(f)) {
        Ok(v) => Ok(v),
        Err(e) => {
            let msg = if let Some(s) = e.downcast_ref::<&str>() {
                s.to_string()
            } else if let Some(s) = e.downcast_ref::<String>() {
                s.clone()
            } else {
                "<non-string panic>".to_string()
            };
            Err(msg)
        }
    }
}

// ---------------------------------------------------------------------------------------------
// SnapStorage

thread_local! {
    static SNAP_WRITES: Cell<u64> = const { Cell::new(0) };
    static SNAP_READS: Cell<u64> = const { Cell::new(0) };
}

pub fn snap_writes() -> u64 {
    SNAP_WRITES.with(|c| c.get())
}
pub fn snap_reads() -> u64 {
    SNAP_READS.with(|c| c.get())
}

/// Ordered-map storage with cheap whole-store snapshot/restore (Clone). Behaves like
/// `MockStorage`: panics on empty values, inverted bounds give an empty range.
/// Counts raw writes / reads per thread (used to show queries write nothing).
#[derive(Clone, Default, Debug, PartialEq, Eq, Hash)]
pub struct SnapStorage {
    pub data: BTreeMap<Vec<u8>, Vec<u8>>,
}

impl SnapStorage {
    pub fn new() -> Self {
        Self::default()
    }
    pub fn dump(&self) -> Vec<(Vec<u8>, Vec<u8>)> {
        self.data.iter().map(|(k, v)| (k.clone(), v.clone())).collect()
    }
}

impl Storage for SnapStorage {
    fn get(&self, key: &[u8]) -> Option<Vec<u8>> {
        SNAP_READS.with(|c| c.set(c.get() + 1));
        self.data.get(key).cloned()
    }

    fn range<'a>(
        &'a self,
        start: Option<&[u8]>,
        end: Option<&[u8]>,
        order: Order,
    ) -> Box<dyn Iterator<Item = Record> + 'a> {
        SNAP_READS.with(|c| c.set(c.get() + 1));
        if let (Some(s), Some(e)) = (start, end) {
            if s > e {
                return Box::new(std::iter::empty());
            }
        }
        let lo = start.map_or(Bound::Unbounded, |s| Bound::Included(s.to_vec()));
        let hi = end.map_or(Bound::Unbounded, |e| Bound::Excluded(e.to_vec()));
        let it = self
            .data
            .range((lo, hi))
            .map(|(k, v)| (k.clone(), v.clone()));
        match order {
            Order::Ascending => Box::new(it),
            Order::Descending => Box::new(it.rev()),
        }
    }

    fn set(&mut self, key: &[u8], value: &[u8]) {
        if value.is_empty() {
            panic!("TL;DR: Value must not be empty in Storage::set but in most cases you can use Storage::remove instead.");
        }
        SNAP_WRITES.with(|c| c.set(c.get() + 1));
        self.data.insert(key.to_vec(), value.to_vec());
    }

    fn remove(&mut self, key: &[u8]) {
        SNAP_WRITES.with(|c| c.set(c.get() + 1));
        self.data.remove(key);
    }
}

pub fn hex(b: &[u8]) -> String {
    let mut s = String::with_capacity(b.len() * 2);
    for x in b {
        s.push_str(&format!("{:02x}", x));
    }
    s
}

pub fn unhex(s: &str) -> Vec<u8> {
    (0..s.len() / 2)
        .map(|i| u8::from_str_radix(&s[2 * i..2 * i + 2], 16).unwrap())
        .collect()
}

/// Prints bytes as ascii where printable, else \xNN (for readable evidence samples).
pub fn show(b: &[u8]) -> String {
    let mut s = String::new();
    for &x in b {
        if (0x20..0x7f).contains(&x) && x != b'\\' {
            s.push(x as char);
        } else {
            s.push_str(&format!("\\x{:02x}", x));
        }
    }
    s
}

/// Deterministic sample picker: keeps up to `cap` samples, chosen by hash rank under the seed,
/// so what is *printed* varies with VERIF_SEED while what is *covered* never does.
pub struct Sampler {
    cap: usize,
    seed: u64,
    items: Mutex<BTreeMap<u64, Value>>,
}

impl Sampler {
    pub fn new(cap: usize, seed: u64) -> Self {
        Sampler {
            cap,
            seed,
            items: Mutex::new(BTreeMap::new()),
        }
    }
    pub fn wants(&self, idx: u64) -> Option<u64> {
        let rank = hash64(&idx, self.seed);
        // cheap pre-filter without locking most of the time
        if rank % 4096 != 0 && idx > 64 {
            return None;
        }
        Some(rank)
    }
    pub fn offer(&self, idx: u64, make: impl FnOnce() -> Value) {
        if let Some(rank) = self.wants(idx) {
            let mut g = self.items.lock().unwrap();
            if g.len() < self.cap || g.keys().next_back().map_or(true, |m| rank < *m) {
                g.insert(rank, make());
                while g.len() > self.cap {
                    let last = *g.keys().next_back().unwrap();
                    g.remove(&last);
                }
            }
        }
    }
    pub fn take(&self) -> Vec<Value> {
        self.items.lock().unwrap().values().cloned().collect()
    }
}

/// Set of distinct outcome digests (to expose vacuous exploration).
#[derive(Default)]
pub struct Distinct {
    set: Mutex<BTreeSet<u64>>,
}
impl Distinct {
    pub fn add(&self, h: u64) {
        self.set.lock().unwrap().insert(h);
    }
    pub fn extend(&self, it: impl IntoIterator<Item = u64>) {
        let mut v: Vec<u64> = it.into_iter().collect();
        v.sort_unstable();
        v.dedup();
        self.set.lock().unwrap().extend(v);
    }
    pub fn len(&self) -> usize {
        self.set.lock().unwrap().len()
    }
}

/// Resident set size of this process in GiB (0 if unknown).
pub fn rss_gb() -> f64 {
    std::fs::read_to_string("/proc/self/statm")
        .ok()
        .and_then(|s| s.split_whitespace().nth(1).and_then(|p| p.parse::<f64>().ok()))
        .map(|pages| pages * 4096.0 / (1u64 << 30) as f64)
        .unwrap_or(0.0)
}

/// Memory cap for explorers (GiB); layers are finished, then the search stops and reports the cap.
pub fn rss_cap_gb() -> f64 {
    std::env::var("VERIF_RSS_CAP_GB").ok().and_then(|s| s.parse().ok()).unwrap_or(16.0)
}

/// Concurrent set of 128-bit state keys (sharded mutexes); `insert` returns true for the first inserter.
pub struct KeySet {
    shards: Vec<Mutex<std::collections::HashSet<u128>>>,
}
impl KeySet {
    pub fn new() -> KeySet {
        KeySet { shards: (0..256).map(|_| Mutex::new(std::collections::HashSet::new())).collect() }
    }
    pub fn insert(&self, k: u128) -> bool {
        self.shards[(k as usize) & 255].lock().unwrap().insert(k)
    }
    pub fn contains(&self, k: u128) -> bool {
        self.shards[(k as usize) & 255].lock().unwrap().contains(&k)
    }
    pub fn len(&self) -> usize {
        self.shards.iter().map(|s| s.lock().unwrap().len()).sum()
    }
}
