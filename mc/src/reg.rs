//! C11: code ids and contract addresses. Layered BFS over histories of registry and
//! instantiation operations; state = (code registry, raw storage), compared with RegistryModel.

use crate::common::*;
use crate::tree::prog::*;
use crate::tree::puppet::*;
use cosmwasm_std::testing::MockApi;
use cosmwasm_std::{Addr, Binary, Empty, WasmMsg};
use cw_multi_test::{App, AppBuilder, BankKeeper, Executor, WasmKeeper};
use rayon::prelude::*;
use serde_json::{json, Value};
use std::collections::{BTreeMap, BTreeSet};
use std::rc::Rc;
use std::sync::Mutex;

/// the label of instantiation variant 1: surrounding white space, and longer than any limit a real
/// chain applies (the simulator has none, and records the label as supplied)
const LONG_LABEL: &str = " m\téééééééééééééééééééééééééééééééééééééééééééééééééééééééééééééééééééééé";

type RApp = App<BankKeeper, MockApi, SnapStorage>;

#[derive(Clone, Debug, PartialEq, Eq, Hash)]
pub enum ROp {
    Store,
    StoreCreator(u8),
    StoreId(u64),
    Dup(u64),
    /// classic instantiate: code, creator index, variant (0: label "l" / no admin, 1: label " m<TAB>" + 70 x "é" (surrounding whitespace, 143 bytes) / admin u), init ok
    Inst { code: u64, creator: u8, variant: u8, ok: bool },
    Inst2 { code: u64, creator: u8, salt: u8, ok: bool },
    /// instantiate as a sub-message of a transaction on the first contract that fails afterwards
    RolledBackInst { code: u64 },
    /// migrate the first contract (sent by its admin) to the code
    Migrate { code: u64 },
    /// empty label must be... not asserted (see DESIGN): op kept out of the alphabet
    CodeInfoOnly,
}

fn op_json(o: &ROp) -> Value {
    json!(format!("{:?}", o))
}

#[derive(Clone, Debug, PartialEq, Eq, Hash)]
struct CodeEntry {
    creator: String,
    /// ids with the same class must share the checksum
    class: u64,
    /// whether the code has a migrate entry point
    has_migrate: bool,
}

#[derive(Clone, Debug, PartialEq, Eq, Hash)]
struct ContractEntry {
    code_id: u64,
    creator: String,
    admin: Option<String>,
    label: String,
    /// (checksum class, creator, salt) for salted ones
    salted: Option<(u64, String, u8)>,
}

#[derive(Clone, Debug, PartialEq, Eq, Hash, Default)]
struct RModel {
    codes: BTreeMap<u64, CodeEntry>,
    contracts: BTreeMap<String, ContractEntry>,
    /// order of creation (first contract hosts the rolled-back transaction / is migrated)
    order: Vec<String>,
}

#[derive(Clone)]
struct RState {
    reg_ops: Vec<ROp>,
    storage: SnapStorage,
    model: RModel,
    path: Vec<ROp>,
}

struct Names {
    creators: Vec<String>,
    default_creator: String,
}

fn names() -> Names {
    let api = MockApi::default();
    // the third creator is a plain name no address codec accepts (an unsalted instantiation needs
    // nothing from the creator but its text)
    Names { creators: vec![api.addr_make("u").into_string(), api.addr_make("v").into_string(), "owner".to_string()], default_creator: api.addr_make("creator").into_string() }
}

fn salts() -> Vec<Vec<u8>> {
    vec![vec![0x01], vec![0x02], (0..64).collect(), vec![]]
}

/// A code without migrate entry point (everything else is the puppet's): migrating TO it must
/// fail, migrating FROM it to a code that has one must work (the new code's entry point runs).
struct NoMigrate(Puppet);

impl cw_multi_test::Contract<Empty, Empty> for NoMigrate {
    fn execute(&self, deps: cosmwasm_std::DepsMut, env: cosmwasm_std::Env, info: cosmwasm_std::MessageInfo, msg: Vec<u8>) -> cw_multi_test::error::AnyResult<cosmwasm_std::Response> {
        self.0.execute(deps, env, info, msg)
    }
    fn instantiate(&self, deps: cosmwasm_std::DepsMut, env: cosmwasm_std::Env, info: cosmwasm_std::MessageInfo, msg: Vec<u8>) -> cw_multi_test::error::AnyResult<cosmwasm_std::Response> {
        self.0.instantiate(deps, env, info, msg)
    }
    fn query(&self, deps: cosmwasm_std::Deps, env: cosmwasm_std::Env, msg: Vec<u8>) -> cw_multi_test::error::AnyResult<Binary> {
        self.0.query(deps, env, msg)
    }
    fn sudo(&self, deps: cosmwasm_std::DepsMut, env: cosmwasm_std::Env, msg: Vec<u8>) -> cw_multi_test::error::AnyResult<cosmwasm_std::Response> {
        self.0.sudo(deps, env, msg)
    }
    fn reply(&self, deps: cosmwasm_std::DepsMut, env: cosmwasm_std::Env, msg: cosmwasm_std::Reply) -> cw_multi_test::error::AnyResult<cosmwasm_std::Response> {
        self.0.reply(deps, env, msg)
    }
    fn migrate(&self, _deps: cosmwasm_std::DepsMut, _env: cosmwasm_std::Env, _msg: Vec<u8>) -> cw_multi_test::error::AnyResult<cosmwasm_std::Response> {
        anyhow::bail!("migrate is not implemented for this code")
    }
}

/// every third registry operation stores a code without migrate entry point
fn lacks_migrate(reg_index: usize) -> bool {
    reg_index % 3 == 1
}

fn code_for(reg_index: usize) -> Box<dyn cw_multi_test::Contract<Empty, Empty>> {
    let p = Puppet { tag: (reg_index % 250) as u8 };
    if lacks_migrate(reg_index) {
        // alternately a hand-written Contract whose migrate refuses, and a ContractWrapper built
        // without any migrate step
        if reg_index % 2 == 1 {
            return wrapped_puppet_without_migrate();
        }
        Box::new(NoMigrate(p))
    } else {
        Box::new(p)
    }
}

fn build_app(reg_ops: &[ROp], storage: &SnapStorage, nm: &Names) -> RApp {
    let mut app: RApp = AppBuilder::new().with_storage(SnapStorage::new()).build(cw_multi_test::no_init);
    for (i, o) in reg_ops.iter().enumerate() {
        let code = code_for(i);
        match o {
            ROp::Store => {
                app.store_code(code);
            }
            ROp::StoreCreator(c) => {
                app.store_code_with_creator(Addr::unchecked(&nm.creators[*c as usize]), code);
            }
            ROp::StoreId(id) => {
                let _ = app.store_code_with_id(Addr::unchecked(&nm.creators[0]), *id, code);
            }
            ROp::Dup(id) => {
                let _ = app.duplicate_code(*id);
            }
            _ => {}
        }
    }
    *app.storage_mut() = storage.clone();
    app
}

const PROBE_IDS: [u64; 14] = [0, 1, 2, 3, 4, 5, 6, 7, 8, 9, 10, 11, 12, 13];

/// Registry as seen through CodeInfo queries: id -> (creator, checksum hex)
fn observe_registry(app: &RApp) -> BTreeMap<u64, (String, String)> {
    let mut m = BTreeMap::new();
    for id in PROBE_IDS {
        if let Ok(ci) = app.wrap().query_wasm_code_info(id) {
            m.insert(id, (ci.creator.into_string(), ci.checksum.to_hex()));
        }
    }
    m
}

struct Shared {
    /// (checksum, creator, salt) -> address, over the whole exploration
    salted: Mutex<BTreeMap<(String, String, u8), String>>,
    salted_rev: Mutex<BTreeMap<String, (String, String, u8)>>,
}

fn init_program(ok: bool) -> Rc<Program> {
    Rc::new(Program {
        entry: Entry::WasmSudo { contract: String::new() },
        root: 0,
        nodes: vec![Node { fail: !ok, writes: vec![WriteOp::Set(b"init".to_vec(), b"1".to_vec())], ..Default::default() }],
    })
}

struct StepOut {
    next: Option<RState>,
    evals: u64,
}

#[allow(clippy::too_many_arguments)]
fn step(ctx: &Ctx, st: &RState, op: &ROp, nm: &Names, shared: &Shared) -> StepOut {
    let mut app = build_app(&st.reg_ops, &st.storage, nm);
    let mut model = st.model.clone();
    let mut reg_ops = st.reg_ops.clone();
    let mut evals = 0u64;
    let mut path = st.path.clone();
    path.push(op.clone());
    let case = |what: &str, extra: Value| json!({"engine": "registry", "history": path.iter().map(op_json).collect::<Vec<_>>(), "what": what, "detail": extra});
    let before_reg = observe_registry(&app);
    let before_raw = app.storage().data.clone();
    let max_id = model.codes.keys().next_back().copied().unwrap_or(0);
    // ---- expected outcome and effect
    enum Exp {
        Code(Result<u64, ()>),
        Contract(Result<(), ()>),
        NoEffect,
        Migrate(Result<(), ()>),
        NotAsserted,
    }
    let mut exp = match op {
        ROp::Store | ROp::StoreCreator(_) => Exp::Code(Ok(max_id + 1)),
        ROp::StoreId(id) => Exp::Code(if *id == 0 || model.codes.contains_key(id) { Err(()) } else { Ok(*id) }),
        ROp::Dup(id) => Exp::Code(if model.codes.contains_key(id) { Ok(max_id + 1) } else { Err(()) }),
        ROp::Inst { code, ok, .. } => Exp::Contract(if model.codes.contains_key(code) && *ok { Ok(()) } else { Err(()) }),
        ROp::Inst2 { code, creator, salt, ok } => {
            let dup = model.codes.get(code).map_or(false, |c| {
                model.contracts.values().any(|k| k.salted == Some((c.class, nm.creators[*creator as usize].clone(), *salt)))
            });
            Exp::Contract(if model.codes.contains_key(code) && *ok && !dup { Ok(()) } else { Err(()) })
        }
        ROp::RolledBackInst { .. } => Exp::NoEffect,
        ROp::Migrate { code } => {
            let first = model.order.first().and_then(|a| model.contracts.get(a));
            match first {
                // who may migrate a contract without admin is C12's business: outcome not asserted here
                Some(c) if c.admin.is_none() => Exp::NotAsserted,
                // the migrate entry point that runs is the one of the code migrated TO
                Some(_) => Exp::Migrate(if model.codes.get(code).map_or(false, |c| c.has_migrate) { Ok(()) } else { Err(()) }),
                None => Exp::Migrate(Err(())),
            }
        }
        ROp::CodeInfoOnly => Exp::NoEffect,
    };
    // ---- run
    set_script(init_program(true));
    let mut new_addr: Option<String> = None;
    let run: Result<Result<u64, String>, String> = catch(|| match op {
        ROp::Store => Ok(app.store_code(code_for(st.reg_ops.len()))),
        ROp::StoreCreator(c) => Ok(app.store_code_with_creator(Addr::unchecked(&nm.creators[*c as usize]), code_for(st.reg_ops.len()))),
        ROp::StoreId(id) => app.store_code_with_id(Addr::unchecked(&nm.creators[0]), *id, code_for(st.reg_ops.len())).map_err(|e| format!("{:#}", e)),
        ROp::Dup(id) => app.duplicate_code(*id).map_err(|e| format!("{:#}", e)),
        ROp::Inst { code, creator, variant, ok } => {
            set_script(init_program(*ok));
            let (label, admin) = if *variant == 0 { ("l", None) } else { (LONG_LABEL, Some(nm.creators[0].clone())) };
            app.instantiate_contract(*code, Addr::unchecked(&nm.creators[*creator as usize]), &NodeMsg { n: 0 }, &[], label, admin)
                .map(|a| {
                    new_addr = Some(a.into_string());
                    0
                })
                .map_err(|e| format!("{:#}", e))
        }
        ROp::Inst2 { code, creator, salt, ok } => {
            set_script(init_program(*ok));
            // (the second salt is used with an admin)
            app.instantiate2_contract(*code, Addr::unchecked(&nm.creators[*creator as usize]), &NodeMsg { n: 0 }, &[], "s", if *salt == 1 { Some(nm.creators[1].clone()) } else { None }, Binary::from(salts()[*salt as usize].clone()))
                .map(|a| {
                    new_addr = Some(a.into_string());
                    0
                })
                .map_err(|e| format!("{:#}", e))
        }
        ROp::RolledBackInst { code } => {
            let Some(host) = st.model.order.first() else { return Err("no host contract".into()) };
            let prog = Program {
                entry: Entry::WasmSudo { contract: String::new() },
                root: 0,
                nodes: vec![
                    Node {
                        writes: vec![WriteOp::Set(b"host".to_vec(), b"1".to_vec())],
                        subs: vec![
                            Sub { id: 1, payload: vec![], reply_on: Mode::Never, msg: Msg::Instantiate { code: *code, funds: vec![], label: "rb".into(), admin: None, node: 1 }, reply: None },
                            Sub { id: 2, payload: vec![], reply_on: Mode::Never, msg: Msg::Call { target: Target::SelfC, funds: vec![], node: 2 }, reply: None },
                        ],
                        ..Default::default()
                    },
                    Node { writes: vec![WriteOp::Set(b"init".to_vec(), b"1".to_vec())], ..Default::default() },
                    Node { fail: true, ..Default::default() },
                ],
            };
            set_script(Rc::new(prog));
            app.execute_contract(Addr::unchecked(&nm.creators[0]), Addr::unchecked(host), &NodeMsg { n: 0 }, &[]).map(|_| 0).map_err(|e| format!("{:#}", e))
        }
        ROp::Migrate { code } => {
            let Some(first) = st.model.order.first() else { return Err("no contract".into()) };
            let sender = st.model.contracts[first].admin.clone().unwrap_or_else(|| nm.creators[1].clone());
            app.execute(Addr::unchecked(sender), WasmMsg::Migrate { contract_addr: first.clone(), new_code_id: *code, msg: cosmwasm_std::to_json_binary(&NodeMsg { n: 0 }).unwrap() }.into())
                .map(|_| 0)
                .map_err(|e| format!("{:#}", e))
        }
        ROp::CodeInfoOnly => Ok(0),
    });
    let _ = take_trace();
    evals += 1;
    let run = match run {
        Ok(r) => r,
        Err(p) => {
            ctx.violation("c11:panic", case("operation panicked", json!({"panic": p})));
            return StepOut { next: None, evals };
        }
    };
    let unchanged = |app: &RApp| app.storage().data == before_raw && observe_registry(app) == before_reg;
    // the property does not say whether an empty salt is a salt the chain accepts: a first use may be
    // rejected (without effect) or accepted (then everything said about salted addresses applies)
    if let ROp::Inst2 { salt, .. } = op {
        if salts()[*salt as usize].is_empty() && matches!(exp, Exp::Contract(Ok(()))) && run.is_err() {
            exp = Exp::Contract(Err(()));
        }
    }
    // ---- compare
    match (&exp, &run) {
        (Exp::Code(Ok(want)), Ok(got)) => {
            if got != want {
                ctx.violation(&format!("c11:code-id-assignment:{}", op_kind(op)), case("returned code id differs", json!({"got": got, "want": want})));
            }
            if model.codes.contains_key(got) {
                ctx.violation("c11:code-id-not-unique", case("returned id already in use", json!({"got": got})));
            }
            let entry = match op {
                ROp::Store => CodeEntry { creator: nm.default_creator.clone(), class: *got, has_migrate: !lacks_migrate(st.reg_ops.len()) },
                ROp::StoreCreator(c) => CodeEntry { creator: nm.creators[*c as usize].clone(), class: *got, has_migrate: !lacks_migrate(st.reg_ops.len()) },
                ROp::StoreId(_) => CodeEntry { creator: nm.creators[0].clone(), class: *got, has_migrate: !lacks_migrate(st.reg_ops.len()) },
                ROp::Dup(src) => model.codes[src].clone(),
                _ => unreachable!(),
            };
            model.codes.insert(*got, entry);
            reg_ops.push(op.clone());
            if app.storage().data != before_raw {
                ctx.violation("c11:registry-op-touched-storage", case("raw storage changed by a code registry operation", json!({})));
            }
        }
        (Exp::Code(Err(())), Err(_)) | (Exp::Contract(Err(())), Err(_)) | (Exp::Migrate(Err(())), Err(_)) => {
            if !unchanged(&app) {
                ctx.violation(&format!("c11:rejected-op-changed-state:{}", op_kind(op)), case("operation was rejected but registry or raw storage changed", json!({"error": run.as_ref().err()})));
            }
        }
        (Exp::Code(Err(())), Ok(got)) => {
            ctx.violation(&format!("c11:invalid-code-op-accepted:{}", op_kind(op)), case("zero / duplicate / unknown id accepted", json!({"got": got})));
            return StepOut { next: None, evals };
        }
        (Exp::Code(Ok(want)), Err(e)) => {
            ctx.violation(&format!("c11:valid-code-op-rejected:{}", op_kind(op)), case("valid registry operation rejected", json!({"want": want, "error": e})));
            return StepOut { next: None, evals };
        }
        (Exp::Contract(Ok(())), Ok(_)) => {
            let addr = new_addr.clone().unwrap();
            if model.contracts.contains_key(&addr) {
                ctx.violation("c11:address-reused", case("instantiation returned the address of an existing contract", json!({"address": addr})));
            }
            let (code, creator, admin, label, salted) = match op {
                ROp::Inst { code, creator, variant, .. } => (*code, nm.creators[*creator as usize].clone(), if *variant == 0 { None } else { Some(nm.creators[0].clone()) }, if *variant == 0 { "l" } else { LONG_LABEL }, None),
                ROp::Inst2 { code, creator, salt, .. } => (*code, nm.creators[*creator as usize].clone(), if *salt == 1 { Some(nm.creators[1].clone()) } else { None }, "s", Some((model.codes[code].class, nm.creators[*creator as usize].clone(), *salt))),
                _ => unreachable!(),
            };
            if let ROp::Inst2 { code, creator, salt, .. } = op {
                // address is a function of (checksum, creator, salt) only: single-valued over the whole exploration, and injective
                let checksum = before_reg.get(code).map(|c| c.1.clone()).unwrap_or_default();
                let key = (checksum, nm.creators[*creator as usize].clone(), *salt);
                let mut tab = shared.salted.lock().unwrap();
                let mut rev = shared.salted_rev.lock().unwrap();
                if let Some(a0) = tab.get(&key) {
                    if *a0 != addr {
                        ctx.violation("c11:salted-address-depends-on-history", case("same (checksum, creator, salt) gave a different address in another history", json!({"address": addr, "other": a0})));
                    }
                } else {
                    tab.insert(key.clone(), addr.clone());
                }
                if let Some(k0) = rev.get(&addr) {
                    if *k0 != key {
                        ctx.violation("c11:salted-address-collision", case("different (checksum, creator, salt) gave the same address", json!({"address": addr})));
                    }
                } else {
                    rev.insert(addr.clone(), key);
                }
            }
            model.contracts.insert(addr.clone(), ContractEntry { code_id: code, creator, admin, label: label.into(), salted });
            model.order.push(addr);
        }
        (Exp::Contract(Ok(())), Err(e)) => {
            let noncontig = match op {
                ROp::Inst { code, .. } | ROp::Inst2 { code, .. } => *code as usize > model.codes.len(),
                _ => false,
            };
            ctx.violation(
                &format!("c11:stored-code-cannot-be-instantiated:{}", if noncontig { "id-above-number-of-codes" } else { "other" }),
                case("instantiating an existing code with a succeeding init failed", json!({"error": e, "codes": model.codes.keys().collect::<Vec<_>>()})),
            );
            if !unchanged(&app) {
                ctx.violation("c11:rejected-op-changed-state:instantiate", case("failed instantiate changed state", json!({})));
            }
            return StepOut { next: None, evals };
        }
        (Exp::Contract(Err(())), Ok(_)) => {
            ctx.violation(&format!("c11:invalid-instantiate-accepted:{}", op_kind(op)), case("instantiate that must fail (unknown code / failing init / repeated salted address) succeeded", json!({"address": new_addr})));
            return StepOut { next: None, evals };
        }
        (Exp::NotAsserted, r) => {
            if r.is_err() && !unchanged(&app) {
                ctx.violation(&format!("c11:rejected-op-changed-state:{}", op_kind(op)), case("operation was rejected but registry or raw storage changed", json!({})));
            }
            if r.is_ok() {
                // follow the implementation's decision
                if let ROp::Migrate { code } = op {
                    if let Some(first) = model.order.first().cloned() {
                        model.contracts.get_mut(&first).unwrap().code_id = *code;
                    }
                }
            }
        }
        (Exp::NoEffect, r) => {
            if matches!(op, ROp::RolledBackInst { .. }) {
                if r.is_ok() {
                    ctx.violation("c11:rolled-back-transaction-succeeded", case("transaction with a failing last sub-message returned Ok", json!({})));
                    return StepOut { next: None, evals };
                }
                if !unchanged(&app) {
                    ctx.violation("c11:rolled-back-instantiate-left-traces", case("state changed by a rolled-back instantiation", json!({})));
                }
            }
        }
        (Exp::Migrate(Ok(())), Ok(_)) => {
            let first = model.order[0].clone();
            if let ROp::Migrate { code } = op {
                model.contracts.get_mut(&first).unwrap().code_id = *code;
            }
        }
        (Exp::Migrate(Ok(())), Err(e)) => {
            let noncontig = matches!(op, ROp::Migrate { code } if *code as usize > model.codes.len());
            ctx.violation(
                &format!("c11:stored-code-cannot-be-migrated-to:{}", if noncontig { "id-above-number-of-codes" } else { "other" }),
                case("migrating (by the admin) to an existing code failed", json!({"error": e, "codes": model.codes.keys().collect::<Vec<_>>()})),
            );
            return StepOut { next: None, evals };
        }
        (Exp::Migrate(Err(())), Ok(_)) => {
            ctx.violation("c11:invalid-migrate-accepted", case("migration to a missing code or without admin succeeded", json!({})));
            return StepOut { next: None, evals };
        }
    }
    // ---- observed registry and contracts equal the model
    evals += 1;
    let reg = observe_registry(&app);
    let want_ids: BTreeSet<u64> = model.codes.keys().copied().filter(|i| PROBE_IDS.contains(i)).collect();
    let got_ids: BTreeSet<u64> = reg.keys().copied().collect();
    if want_ids != got_ids {
        ctx.violation("c11:code-info-set-differs", case("ids answering CodeInfo differ from the stored ids", json!({"got": got_ids, "want": want_ids})));
    }
    for (id, (creator, checksum)) in &reg {
        if let Some(c) = model.codes.get(id) {
            if *creator != c.creator {
                ctx.violation("c11:code-creator-differs", case("CodeInfo creator", json!({"id": id, "got": creator, "want": c.creator})));
            }
            // same class => same checksum
            if let Some((_, cs0)) = reg.get(&c.class) {
                if cs0 != checksum {
                    ctx.violation("c11:duplicate-checksum-differs", case("duplicated code must share the checksum of its source", json!({"id": id, "source": c.class})));
                }
            }
        }
    }
    for (addr, c) in &model.contracts {
        evals += 1;
        match app.contract_data(&Addr::unchecked(addr)) {
            Ok(cd) => {
                if cd.code_id != c.code_id || cd.creator.as_str() != c.creator || cd.admin.as_ref().map(|a| a.to_string()) != c.admin || cd.label != c.label {
                    ctx.violation("c11:contract-data-differs", case("recorded code id / creator / admin / label", json!({"address": addr, "got": format!("{:?}", cd), "want": format!("{:?}", c)})));
                }
                match app.wrap().query_wasm_contract_info(addr.clone()) {
                    Ok(ci) => {
                        if ci.code_id != c.code_id || ci.creator.as_str() != c.creator || ci.admin.as_ref().map(|a| a.to_string()) != c.admin {
                            ctx.violation("c11:contract-info-query-differs", case("ContractInfo query", json!({"address": addr})));
                        }
                    }
                    Err(e) => ctx.violation("c11:contract-info-query-failed", case("ContractInfo query failed", json!({"address": addr, "error": e.to_string()}))),
                }
            }
            Err(e) => ctx.violation("c11:contract-missing", case("contract_data fails for an instantiated contract", json!({"address": addr, "error": format!("{:#}", e)}))),
        }
    }
    StepOut { next: Some(RState { reg_ops, storage: app.storage().clone(), model, path }), evals }
}

fn op_kind(o: &ROp) -> &'static str {
    match o {
        ROp::Store | ROp::StoreCreator(_) => "store_code",
        ROp::StoreId(_) => "store_code_with_id",
        ROp::Dup(_) => "duplicate_code",
        ROp::Inst { .. } => "instantiate",
        ROp::Inst2 { .. } => "instantiate2",
        ROp::RolledBackInst { .. } => "rolled-back-instantiate",
        ROp::Migrate { .. } => "migrate",
        ROp::CodeInfoOnly => "code-info",
    }
}

pub fn alphabet(tier: Tier) -> Vec<ROp> {
    let ids: Vec<u64> = tier.pick(vec![0, 1, 2, 3, 5], vec![0, 1, 2, 3, 5, 9]);
    let codes: Vec<u64> = tier.pick(vec![1, 2, 5], vec![1, 2, 3, 5, 9]);
    let mut v = vec![ROp::Store, ROp::StoreCreator(1)];
    for id in &ids {
        v.push(ROp::StoreId(*id));
    }
    for id in &ids {
        v.push(ROp::Dup(*id));
    }
    for code in &codes {
        for creator in 0..2u8 {
            for variant in 0..2u8 {
                if tier == Tier::Quick && creator != variant {
                    continue;
                }
                v.push(ROp::Inst { code: *code, creator, variant, ok: true });
            }
        }
        v.push(ROp::Inst { code: *code, creator: 0, variant: 0, ok: false });
        v.push(ROp::Inst { code: *code, creator: 2, variant: 0, ok: true });
        for creator in 0..2u8 {
            for salt in 0..3u8 {
                if tier == Tier::Quick && salt == 2 && creator == 1 {
                    continue;
                }
                v.push(ROp::Inst2 { code: *code, creator, salt, ok: true });
            }
        }
        v.push(ROp::Inst2 { code: *code, creator: 0, salt: 3, ok: true });
        v.push(ROp::Inst2 { code: *code, creator: 0, salt: 0, ok: false });
        v.push(ROp::Migrate { code: *code });
    }
    v.push(ROp::Migrate { code: 0 });
    v.push(ROp::Migrate { code: 7 });
    v.push(ROp::Inst { code: 7, creator: 0, variant: 0, ok: true });
    v.push(ROp::Inst { code: 0, creator: 0, variant: 0, ok: true });
    v.push(ROp::RolledBackInst { code: 1 });
    v.push(ROp::RolledBackInst { code: 2 });
    v
}

pub fn run_c11(ctx: &Ctx) -> i32 {
    let (mut coverage, assumptions) = explore_registry(ctx, ctx.tier.pick(4, 5));
    // the same exploration from a registry that already holds two codes (one level less): histories
    // such as instantiate / migrate to the other code / instantiate again need both codes first
    let (second, _) = explore_registry_from(ctx, ctx.tier.pick(3, 4), &[ROp::Store, ROp::Store]);
    for k in ["states", "transitions", "traces_validated_against_impl", "evaluations", "distinct_nontrivial"] {
        coverage[k] = json!(coverage[k].as_u64().unwrap_or(0) + second[k].as_u64().unwrap_or(0));
    }
    coverage["second_exploration_from_two_stored_codes"] = json!({"depth_completed": second["depth_completed"], "states": second["states"], "transitions": second["transitions"], "caps_hit": second["caps_hit"]});
    let coll = colliding_generators(ctx, ctx.tier.pick(4, 6));
    coverage["transitions"] = json!(coverage["transitions"].as_u64().unwrap_or(0) + coll["steps"].as_u64().unwrap_or(0));
    coverage["evaluations"] = json!(coverage["evaluations"].as_u64().unwrap_or(0) + coll["steps"].as_u64().unwrap_or(0));
    coverage["colliding_address_generator"] = coll;
    let keeper_cases = configured_keeper_stage(ctx, ctx.tier.pick(3, 5));
    coverage["transitions"] = json!(coverage["transitions"].as_u64().unwrap_or(0) + keeper_cases);
    coverage["keeper_configured_after_codes_were_stored: checks"] = json!(keeper_cases);
    ctx.finish(coverage, assumptions)
}

/// The registry exploration; when run on behalf of C19 (`ctx.id == "C19"`) only the replay
/// validation (state reached through snapshots = state reached from genesis) is reported.
pub fn explore_registry(ctx: &Ctx, max_depth: usize) -> (Value, Vec<String>) {
    explore_registry_from(ctx, max_depth, &[])
}

/// The exploration started from the state the `prefix` operations lead to (they must succeed).
pub fn explore_registry_from(ctx: &Ctx, max_depth: usize, prefix: &[ROp]) -> (Value, Vec<String>) {
    let quiet = Ctx::new("C11", ctx.tier);
    let real_ctx = ctx;
    let ctx: &Ctx = if real_ctx.id == "C19" { &quiet } else { real_ctx };
    let replay_mismatch = std::sync::atomic::AtomicU64::new(0);
    let nm = names();
    set_watch(Watch::default());
    let alpha = alphabet(ctx.tier);
    let shared = Shared { salted: Mutex::new(BTreeMap::new()), salted_rev: Mutex::new(BTreeMap::new()) };
    let mut root = RState { reg_ops: vec![], storage: SnapStorage::new(), model: RModel::default(), path: vec![] };
    for op in prefix {
        match step(ctx, &root, op, &nm, &shared).next {
            Some(n) => root = n,
            None => machinery_error("C11: a prefix operation of the registry exploration did not succeed"),
        }
    }
    let key = |s: &RState| hash128(&(&s.model, &s.storage.data));
    // states are kept only by the first transition that reaches them (the set is shared by the
    // workers), so a layer never holds more than its new states
    let seen = KeySet::new();
    seen.insert(key(&root));
    let mut frontier = vec![root];
    let mut transitions = 0u64;
    let mut evals = 0u64;
    let mut layers = vec![1u64];
    let mut depth = 0;
    let mut caps: Vec<String> = vec![];
    let mut samples: Vec<Value> = vec![];
    let mut replays = 0u64;
    while depth < max_depth && !frontier.is_empty() {
        if ctx.elapsed() > ctx.budget_s() {
            caps.push(format!("wall-clock budget reached after completing depth {}", depth));
            break;
        }
        if rss_gb() > rss_cap_gb() {
            caps.push(format!("resident-memory cap {} GiB reached after completing depth {}", rss_cap_gb(), depth));
            break;
        }
        if ctx.vio_count.load(std::sync::atomic::Ordering::Relaxed) > 0 {
            caps.push(format!("stopped after depth {} because violations were found (breadth-first: they are shortest ones)", depth));
            break;
        }
        let mem_stop = std::sync::atomic::AtomicBool::new(false);
        let results: Vec<(Vec<RState>, u64, u64)> = frontier
            .par_chunks(8)
            .map(|ch| {
                set_watch(Watch::default());
                let mut out = vec![];
                let (mut nt, mut ne) = (0u64, 0u64);
                for s in ch {
                    if mem_stop.load(std::sync::atomic::Ordering::Relaxed) {
                        break;
                    }
                    if rss_gb() > 1.5 * rss_cap_gb() {
                        mem_stop.store(true, std::sync::atomic::Ordering::Relaxed);
                        break;
                    }
                    for op in &alpha {
                        let r = step(ctx, s, op, &nm, &shared);
                        nt += 1;
                        ne += r.evals;
                        if let Some(n) = r.next {
                            if seen.insert(key(&n)) {
                                out.push(n);
                            }
                        }
                    }
                }
                (out, nt, ne)
            })
            .collect();
        let mut next = vec![];
        for (out, nt, ne) in results {
            transitions += nt;
            evals += ne;
            next.extend(out);
        }

        if mem_stop.load(std::sync::atomic::Ordering::Relaxed) {
            caps.push(format!("resident-memory guard hit inside depth {}: that layer is incomplete", depth + 1));
            break;
        }
        depth += 1;
        layers.push(next.len() as u64);
        // replay validation: every new state's history re-executed on one fresh App, op by op
        let rv: u64 = next
            .par_chunks(16)
            .map(|ch| {
                set_watch(Watch::default());
                let mut n = 0;
                for s in ch {
                    let mut cur = RState { reg_ops: vec![], storage: SnapStorage::new(), model: RModel::default(), path: vec![] };
                    let quiet = Ctx::new(&ctx.id, ctx.tier);
                    for op in &s.path {
                        if let Some(nx) = step(&quiet, &cur, op, &nm, &shared).next {
                            cur = nx;
                        }
                    }
                    n += 1;
                    if cur.storage.data != s.storage.data || cur.model != s.model {
                        replay_mismatch.fetch_add(1, std::sync::atomic::Ordering::Relaxed);
                        if real_ctx.id == "C19" {
                            real_ctx.violation("c19:replay-from-genesis-differs-from-snapshot-derived-state:registry", json!({"engine": "registry", "history": s.path.iter().map(op_json).collect::<Vec<_>>()}));
                        }
                    }
                }
                n
            })
            .sum();
        replays += rv;
        if samples.len() < 3 {
            if let Some(s) = next.get(next.len() / 2) {
                samples.push(json!({"history": s.path.iter().map(op_json).collect::<Vec<_>>()}));
            }
        }
        frontier = next;
    }
    if samples.is_empty() {
        samples.push(json!({"history": []}));
    }
    let coverage = json!({
        "states": seen.len(),
        "transitions": transitions,
        "traces_validated_against_impl": replays,
        "evaluations": evals,
        "distinct_nontrivial": seen.len(),
        "rule": "layered BFS over (code registry, raw storage) states; one transition = a fresh App with the registry replayed and the storage snapshot restored, one operation, outcome / registry (CodeInfo for ids 0..13) / contract records compared with RegistryModel; every new state's history is replayed from an empty App",
        "exhaustive": caps.is_empty(),
        "depth_completed": depth,
        "new_states_per_layer": layers,
        "operations": alpha.len(),
        "alphabet": alpha.iter().map(op_json).collect::<Vec<_>>(),
        "salted_address_table_entries": shared.salted.lock().unwrap().len(),
        "replay_mismatches (hidden state; reported by C19)": replay_mismatch.load(std::sync::atomic::Ordering::Relaxed),
        "caps_hit": caps,
        "samples": samples,
    });
    (coverage, vec!["whether an empty label is accepted is not asserted".into(), "code ids above 13 and store_code at u64::MAX are outside".into(), "who may migrate a contract that has no admin is C12's business and not asserted here".into()])
}

// ---------------------------------------------------------------------------------------------
// user-supplied address generators whose addresses collide

thread_local! {
    /// the address the generator handed out last (None: it was not asked)
    static LAST_GENERATED: std::cell::RefCell<Option<String>> = const { std::cell::RefCell::new(None) };
    /// (salted?, code id, instance id) the generator was last asked about
    static LAST_IDS: std::cell::Cell<Option<(bool, u64, u64)>> = const { std::cell::Cell::new(None) };
}

/// Hands out addresses from a pool of two (unsalted) and of two, one shared with the first pool
/// (salted): a generator a user may plug in, under which "an address no existing contract has"
/// is not automatic.
struct PoolAddresses {
    pool: [String; 3],
}

impl cw_multi_test::AddressGenerator for PoolAddresses {
    fn contract_address(&self, _api: &dyn cosmwasm_std::Api, _storage: &mut dyn cosmwasm_std::Storage, code_id: u64, instance_id: u64) -> cw_multi_test::error::AnyResult<Addr> {
        LAST_IDS.with(|l| l.set(Some((false, code_id, instance_id))));
        let a = self.pool[((code_id + instance_id) % 2) as usize].clone();
        LAST_GENERATED.with(|l| *l.borrow_mut() = Some(a.clone()));
        Ok(Addr::unchecked(a))
    }
    fn predictable_contract_address(&self, _api: &dyn cosmwasm_std::Api, _storage: &mut dyn cosmwasm_std::Storage, code_id: u64, instance_id: u64, _checksum: &[u8], _creator: &cosmwasm_std::CanonicalAddr, salt: &[u8]) -> cw_multi_test::error::AnyResult<Addr> {
        LAST_IDS.with(|l| l.set(Some((true, code_id, instance_id))));
        let a = self.pool[1 + (salt[0] % 2) as usize].clone();
        LAST_GENERATED.with(|l| *l.borrow_mut() = Some(a.clone()));
        Ok(Addr::unchecked(a))
    }
}

#[derive(Clone, Debug)]
enum POp {
    /// code, creator, variant (label / admin), init ok
    Inst(u64, u8, u8, bool),
    /// code, salt byte
    Inst2(u64, u8),
    /// instantiate as a sub-message of the first live contract's sudo (Never: failure aborts)
    SubInst(u64),
}

/// Every sequence of instantiations up to `depth` on an App whose address generator hands out
/// colliding addresses. Oracle (the statement's own words): a successful instantiation creates a
/// contract at an address no existing contract has, its record is what was supplied; a rejected
/// one leaves everything unchanged; and nothing that existed before (records and storage of the
/// live contracts) is ever overwritten by an instantiation.
/// A keeper that is configured AFTER codes were stored in it: every sequence (up to `len`) of
/// keeper-level steps {store_code, store_code_with_id(5), duplicate_code(1), with_checksum_generator,
/// with_address_generator}, then the keeper is handed to the builder. Every id a successful store
/// returned is distinct, still answers code-info queries and can be instantiated in the App, and
/// the App's next automatic id is one more than the largest.
fn configured_keeper_stage(ctx: &Ctx, len: usize) -> u64 {
    use cw_multi_test::Wasm;
    struct FixedChecksums;
    impl cw_multi_test::ChecksumGenerator for FixedChecksums {
        fn checksum(&self, _creator: &Addr, code_id: u64) -> cosmwasm_std::Checksum {
            cosmwasm_std::Checksum::generate(format!("fixed-{}", code_id).as_bytes())
        }
    }
    let api = MockApi::default();
    let creator = api.addr_make("creator");
    let steps = ["store_code", "store_code_with_id(5)", "duplicate_code(1)", "with_checksum_generator", "with_address_generator"];
    let mut seqs: Vec<Vec<usize>> = vec![vec![]];
    let mut layer: Vec<Vec<usize>> = vec![vec![]];
    for _ in 0..len {
        let mut next = vec![];
        for sq in &layer {
            for i in 0..steps.len() {
                let mut x = sq.clone();
                x.push(i);
                next.push(x);
            }
        }
        seqs.extend(next.iter().cloned());
        layer = next;
    }
    let mut n = 0u64;
    for sq in &seqs {
        let names: Vec<&str> = sq.iter().map(|i| steps[*i]).collect();
        let case = |what: &str, extra: Value| json!({"engine": "registry-configured-keeper", "keeper_steps": names, "what": what, "detail": extra});
        let mut keeper: WasmKeeper<Empty, Empty> = WasmKeeper::new();
        let mut ids: Vec<u64> = vec![];
        let r = catch(|| {
            for i in sq {
                match i {
                    0 => ids.push(keeper.store_code(creator.clone(), Box::new(Puppet { tag: 1 }))),
                    1 => {
                        if let Ok(id) = keeper.store_code_with_id(creator.clone(), 5, Box::new(Puppet { tag: 1 })) {
                            ids.push(id)
                        }
                    }
                    2 => {
                        if let Ok(id) = keeper.duplicate_code(1) {
                            ids.push(id)
                        }
                    }
                    3 => keeper = std::mem::take(&mut keeper).with_checksum_generator(FixedChecksums),
                    _ => keeper = std::mem::take(&mut keeper).with_address_generator(cw_multi_test::SimpleAddressGenerator),
                }
            }
        });
        n += 1;
        if let Err(p) = r {
            ctx.violation("c11:panic:configured-keeper", case("panic", json!(p)));
            continue;
        }
        let distinct: BTreeSet<u64> = ids.iter().copied().collect();
        if distinct.len() != ids.len() || ids.contains(&0) {
            ctx.violation("c11:code-id-not-unique:configured-keeper", case("ids handed out by the keeper", json!(ids)));
        }
        let mut app: RApp = AppBuilder::new().with_storage(SnapStorage::new()).with_wasm(keeper).build(cw_multi_test::no_init);
        for id in &ids {
            n += 1;
            let info = app.wrap().query_wasm_code_info(*id);
            set_script(init_program(true));
            let inst = catch(|| app.instantiate_contract(*id, creator.clone(), &NodeMsg { n: 0 }, &[], "l", None));
            let _ = take_trace();
            let ok = matches!(&inst, Ok(Ok(_)));
            if info.is_err() || !ok {
                ctx.violation("c11:stored-code-unusable:configured-keeper", case("a code stored in the keeper before it was configured", json!({"code_id": id, "code_info": info.map(|i| format!("{:?}", i)).map_err(|e| e.to_string()), "instantiate": format!("{:?}", inst.map(|r| r.map(|a| a.into_string()).map_err(|e| format!("{:#}", e))))})));
            }
        }
        let next_id = app.store_code(Box::new(Puppet { tag: 2 }));
        let want = ids.iter().copied().max().unwrap_or(0) + 1;
        n += 1;
        if next_id != want {
            ctx.violation("c11:code-id-assignment:configured-keeper", case("next automatic id in the App", json!({"got": next_id, "want": want, "ids_in_use": ids})));
        }
    }
    n
}

fn colliding_generators(ctx: &Ctx, depth: usize) -> Value {
    let nm = names();
    let api = MockApi::default();
    let pool = [api.addr_make("pool0").into_string(), api.addr_make("pool1").into_string(), api.addr_make("pool2").into_string()];
    let build = |storage: &SnapStorage| -> RApp {
        let mut app: RApp = AppBuilder::new()
            .with_storage(SnapStorage::new())
            .with_wasm(WasmKeeper::new().with_address_generator(PoolAddresses { pool: pool.clone() }))
            .build(cw_multi_test::no_init);
        app.store_code(Box::new(Puppet { tag: 1 }));
        app.store_code(Box::new(Puppet { tag: 2 }));
        *app.storage_mut() = storage.clone();
        app
    };
    let mut alpha = vec![];
    for code in [1u64, 2] {
        alpha.push(POp::Inst(code, 0, 0, true));
        alpha.push(POp::Inst(code, 1, 1, true));
        alpha.push(POp::Inst2(code, 0));
    }
    alpha.push(POp::Inst2(1, 1));
    alpha.push(POp::Inst(1, 0, 0, false));
    alpha.push(POp::SubInst(2));
    type Live = BTreeMap<String, (u64, String, Option<String>, String)>;
    struct Node2 {
        storage: SnapStorage,
        live: Live,
        order: Vec<String>,
        path: Vec<String>,
    }
    let mut frontier = vec![Node2 { storage: SnapStorage::new(), live: BTreeMap::new(), order: vec![], path: vec![] }];
    let (mut sequences, mut steps, mut collisions, mut accepted) = (0u64, 0u64, 0u64, 0u64);
    let mut distinct = BTreeSet::new();
    for _ in 0..depth {
        let mut next = vec![];
        for st in &frontier {
            for op in &alpha {
                let mut app = build(&st.storage);
                let mut path = st.path.clone();
                path.push(format!("{:?}", op));
                let case = |what: &str, extra: Value| json!({"engine": "registry-colliding-generator", "history": path, "what": what, "detail": extra});
                let before = app.storage().data.clone();
                LAST_GENERATED.with(|l| *l.borrow_mut() = None);
                LAST_IDS.with(|l| l.set(None));
                let (code, creator, admin, label) = match op {
                    POp::Inst(code, c, v, _) => (*code, nm.creators[*c as usize].clone(), if *v == 0 { None } else { Some(nm.creators[0].clone()) }, if *v == 0 { "l" } else { "m" }),
                    POp::Inst2(code, _) => (*code, nm.creators[0].clone(), None, "s"),
                    POp::SubInst(code) => (*code, st.order.first().cloned().unwrap_or_default(), None, "sub"),
                };
                let run: Result<Result<Option<String>, String>, String> = catch(|| match op {
                    POp::Inst(code, c, _, ok) => {
                        set_script(init_program(*ok));
                        app.instantiate_contract(*code, Addr::unchecked(&nm.creators[*c as usize]), &NodeMsg { n: 0 }, &[], label, admin.clone()).map(|a| Some(a.into_string())).map_err(|e| format!("{:#}", e))
                    }
                    POp::Inst2(code, salt) => {
                        set_script(init_program(true));
                        app.instantiate2_contract(*code, Addr::unchecked(&nm.creators[0]), &NodeMsg { n: 0 }, &[], label, None, Binary::from(vec![*salt])).map(|a| Some(a.into_string())).map_err(|e| format!("{:#}", e))
                    }
                    POp::SubInst(code) => {
                        let Some(host) = st.order.first() else { return Err("no host contract".into()) };
                        let prog = Program {
                            entry: Entry::WasmSudo { contract: String::new() },
                            root: 0,
                            nodes: vec![
                                Node { subs: vec![Sub { id: 1, payload: vec![], reply_on: Mode::Never, msg: Msg::Instantiate { code: *code, funds: vec![], label: "sub".into(), admin: None, node: 1 }, reply: None }], ..Default::default() },
                                Node { writes: vec![WriteOp::Set(b"init".to_vec(), b"1".to_vec())], ..Default::default() },
                            ],
                        };
                        set_script(Rc::new(prog));
                        app.wasm_sudo(Addr::unchecked(host), &NodeMsg { n: 0 }).map(|_| None).map_err(|e| format!("{:#}", e))
                    }
                });
                steps += 1;
                let target = LAST_GENERATED.with(|l| l.borrow().clone());
                // the supplied generator is asked about the code and the instance at hand, on both paths
                if let Some((salted, code_seen, inst_seen)) = LAST_IDS.with(|l| l.get()) {
                    if (code_seen, inst_seen) != (code, st.live.len() as u64) {
                        ctx.violation("c11:address-generator-asked-about-other-ids", case("ids handed to the supplied address generator", json!({"salted": salted, "code_id_seen": code_seen, "instance_id_seen": inst_seen, "code_id": code, "contracts_so_far": st.live.len()})));
                    }
                }
                let run = match run {
                    Err(p) => {
                        ctx.violation("c11:panic:custom-generator", case("panic", json!({"panic": p})));
                        continue;
                    }
                    Ok(r) => r,
                };
                let occupied = target.as_ref().map_or(false, |t| st.live.contains_key(t));
                if occupied {
                    collisions += 1;
                }
                let init_ok = !matches!(op, POp::Inst(_, _, _, false));
                let host_missing = matches!(op, POp::SubInst(_)) && st.order.is_empty();
                let after = app.storage().data.clone();
                match &run {
                    Ok(ret) => {
                        accepted += 1;
                        let Some(t) = target.clone() else {
                            ctx.violation("c11:custom-generator-not-asked", case("an instantiation succeeded without asking the configured address generator", json!({})));
                            continue;
                        };
                        if occupied {
                            ctx.violation("c11:address-reused:custom-generator", case("instantiation succeeded at the address of an existing contract", json!({"address": t, "existing": format!("{:?}", st.live.get(&t))})));
                            continue;
                        }
                        if !init_ok {
                            ctx.violation("c11:invalid-instantiate-accepted:custom-generator", case("instantiate with failing init succeeded", json!({})));
                            continue;
                        }
                        if let Some(a) = ret {
                            if *a != t {
                                ctx.violation("c11:returned-address-differs-from-generated", case("returned address is not the generated one", json!({"returned": a, "generated": t})));
                            }
                        }
                        // nothing that existed is overwritten
                        let overwritten: Vec<String> = before.iter().filter(|(k, v)| after.get(*k) != Some(*v)).map(|(k, _)| String::from_utf8_lossy(k).into_owned()).collect();
                        if !overwritten.is_empty() {
                            ctx.violation("c11:instantiation-overwrote-existing-state", case("keys that existed before the instantiation changed", json!({"keys": overwritten})));
                        }
                        match app.contract_data(&Addr::unchecked(&t)) {
                            Ok(cd) => {
                                let got = (cd.code_id, cd.creator.to_string(), cd.admin.map(|a| a.to_string()), cd.label.clone());
                                let want = (code, creator.clone(), admin.clone(), label.to_string());
                                if got != want {
                                    ctx.violation("c11:contract-record-differs:custom-generator", case("recorded code id / creator / admin / label differ from what was supplied", json!({"got": format!("{:?}", got), "want": format!("{:?}", want)})));
                                }
                            }
                            Err(e) => ctx.violation("c11:contract-record-missing:custom-generator", case("no contract record at the new address", json!({"error": e.to_string()}))),
                        }
                        let mut live = st.live.clone();
                        live.insert(t.clone(), (code, creator.clone(), admin.clone(), label.to_string()));
                        let mut order = st.order.clone();
                        order.push(t);
                        distinct.insert(hash64(&after, 9));
                        next.push(Node2 { storage: app.storage().clone(), live, order, path: path.clone() });
                    }
                    Err(e) => {
                        if after != before {
                            ctx.violation("c11:rejected-op-changed-state:custom-generator", case("a rejected instantiation changed the raw storage", json!({"error": e})));
                        }
                        if !occupied && init_ok && !host_missing && target.is_some() {
                            ctx.violation("c11:stored-code-cannot-be-instantiated:custom-generator", case("instantiation at a free address with a succeeding init was rejected", json!({"error": e, "address": target})));
                        }
                    }
                }
                // the records of all contracts that were live before are intact
                for (a, rec) in &st.live {
                    match app.contract_data(&Addr::unchecked(a)) {
                        Ok(cd) => {
                            let got = (cd.code_id, cd.creator.to_string(), cd.admin.map(|x| x.to_string()), cd.label.clone());
                            if got != *rec {
                                ctx.violation("c11:live-contract-record-changed", case("the record of an existing contract changed", json!({"address": a, "before": format!("{:?}", rec), "after": format!("{:?}", got)})));
                            }
                        }
                        Err(e) => ctx.violation("c11:live-contract-record-changed", case("the record of an existing contract disappeared", json!({"address": a, "error": e.to_string()}))),
                    }
                }
            }
        }
        sequences += next.len() as u64;
        frontier = next;
        if ctx.vio_count.load(std::sync::atomic::Ordering::Relaxed) > 0 {
            break;
        }
    }
    json!({"depth": depth, "alphabet": alpha.iter().map(|o| format!("{:?}", o)).collect::<Vec<_>>(), "steps": steps, "accepted_sequences": sequences, "steps_targeting_an_occupied_address": collisions, "accepted": accepted, "distinct_states": distinct.len(),
        "generator": "unsalted: pool[(code_id + instance_id) % 2]; salted: pool[1 + salt % 2] (three addresses in all)"})
}

pub fn replay_c11(ctx: &Ctx, case: &Value) {
    let nm = names();
    set_watch(Watch::default());
    let alpha_all = alphabet(Tier::Thorough);
    let shared = Shared { salted: Mutex::new(BTreeMap::new()), salted_rev: Mutex::new(BTreeMap::new()) };
    let mut cur = RState { reg_ops: vec![], storage: SnapStorage::new(), model: RModel::default(), path: vec![] };
    for o in case["history"].as_array().cloned().unwrap_or_default() {
        let s = o.as_str().unwrap_or("").to_string();
        let Some(op) = alpha_all.iter().find(|a| format!("{:?}", a) == s) else { machinery_error(&format!("unknown op {}", s)) };
        if let Some(n) = step(ctx, &cur, op, &nm, &shared).next {
            cur = n;
        }
    }
    let _ = Empty {};
}
