//! C19: determinism and non-interference of independent App instances.

use crate::common::*;
use crate::tree::prog::*;
use crate::tree::puppet::*;
use cosmwasm_std::testing::{mock_env, MockApi};
use cosmwasm_std::{coin, Addr, BankMsg, Binary, Decimal, StakingMsg, Validator, WasmMsg};
use cw_multi_test::{next_block, App, AppBuilder, BankKeeper, BankSudo, Executor, StakingInfo, SudoMsg};
use rayon::prelude::*;
use serde_json::{json, Value};
use std::rc::Rc;
use std::sync::atomic::{AtomicU64, Ordering::Relaxed};

type DApp = App<BankKeeper, MockApi, SnapStorage>;

#[derive(Clone, Copy, Debug, PartialEq, Eq, Hash)]
pub enum DOp {
    Store,
    Dup1,
    StoreId7,
    Inst,
    InstFail,
    Inst2,
    ExecOk,
    ExecFail,
    ExecCaught,
    Send,
    Mint,
    Delegate,
    /// a second delegator on the same validator
    Delegate2,
    Block,
    Sudo,
    /// a raw query whose bytes are no query request (the error text comes back to the caller)
    BadQuery,
    /// a smart query to an address without contract, and a contract-info query for it
    QueryNoContract,
    /// the first contract calls (reply_on Always) a contract built with ContractWrapper::new that has
    /// no reply entry point and needs one: the caller's reply is handed the error text
    CallPlain,
    /// delegate 4 and undelegate 2 right away (one operation: a pending unbonding)
    DelegateUndelegate,
    /// a block update that passes the unbonding period of either configuration
    BlockLong,
    /// a burst of smart / raw / contract-info queries whose address text is no address at all
    /// (whatever failing queries leave behind must not outlive them, in this App or any other)
    BadAddrQueries,
}

const ALL: [DOp; 16] = [DOp::Inst, DOp::Inst2, DOp::ExecCaught, DOp::CallPlain, DOp::Store, DOp::Dup1, DOp::Delegate, DOp::Delegate2, DOp::ExecOk, DOp::Send, DOp::Block, DOp::ExecFail, DOp::Mint, DOp::InstFail, DOp::StoreId7, DOp::Sudo];

struct Inst {
    app: DApp,
    contracts: Vec<String>,
    u: String,
    v: String,
    denom: &'static str,
    /// the contract without reply entry point (code 2), instantiated when the App is built
    plain: String,
}

fn plain_exec(_deps: cosmwasm_std::DepsMut, _env: cosmwasm_std::Env, _info: cosmwasm_std::MessageInfo, _msg: cosmwasm_std::Empty) -> cosmwasm_std::StdResult<cosmwasm_std::Response> {
    // a sub-message that fails and asks for a reply on error: the reply entry point is missing
    Ok(cosmwasm_std::Response::new().add_submessage(cosmwasm_std::SubMsg::reply_on_error(BankMsg::Send { to_address: "nobody".into(), amount: vec![coin(1_000_000, "nope")] }, 5)))
}
fn plain_inst(_deps: cosmwasm_std::DepsMut, _env: cosmwasm_std::Env, _info: cosmwasm_std::MessageInfo, _msg: cosmwasm_std::Empty) -> cosmwasm_std::StdResult<cosmwasm_std::Response> {
    Ok(cosmwasm_std::Response::new())
}
fn plain_query(_deps: cosmwasm_std::Deps, _env: cosmwasm_std::Env, _msg: cosmwasm_std::Empty) -> cosmwasm_std::StdResult<Binary> {
    Ok(Binary::default())
}

fn fresh() -> Inst {
    fresh_cfg(false)
}

/// `alt`: an App with other staking parameters, validator commission and balances (non-interference
/// must also hold between differently configured Apps of one process).
fn fresh_cfg(alt: bool) -> Inst {
    let api = MockApi::default();
    let u = api.addr_make("u").into_string();
    let v = api.addr_make("v").into_string();
    let ua = Addr::unchecked(&u);
    let block = mock_env().block;
    let app: DApp = AppBuilder::new().with_storage(SnapStorage::new()).build(|router, api, storage| {
        if alt {
            router.bank.init_balance(storage, &ua, vec![coin(70, "x"), coin(40, "ualt"), coin(9, "TOKEN")]).unwrap();
            router.bank.init_balance(storage, &Addr::unchecked(&v), vec![coin(30, "ualt")]).unwrap();
            router.staking.setup(storage, StakingInfo { bonded_denom: "ualt".into(), unbonding_time: 7, apr: Decimal::percent(50) }).unwrap();
            router.staking.add_validator(api, storage, &block, Validator::create("val".into(), Decimal::percent(25), Decimal::percent(90), Decimal::percent(1))).unwrap();
        } else {
            router.bank.init_balance(storage, &ua, vec![coin(50, "x"), coin(50, "TOKEN")]).unwrap();
            router.bank.init_balance(storage, &Addr::unchecked(&v), vec![coin(50, "TOKEN")]).unwrap();
            router.staking.setup(storage, StakingInfo { bonded_denom: "TOKEN".into(), unbonding_time: 60, apr: Decimal::percent(10) }).unwrap();
            router.staking.add_validator(api, storage, &block, Validator::create("val".into(), Decimal::percent(10), Decimal::percent(90), Decimal::percent(1))).unwrap();
        }
    });
    let mut i = Inst { app, contracts: vec![], u, v, denom: if alt { "ualt" } else { "TOKEN" }, plain: String::new() };
    // one code is part of every fresh instance, so that instantiations need no preceding store
    i.app.store_code(Box::new(Puppet { tag: 1 }));
    let c2 = i.app.store_code(Box::new(cw_multi_test::ContractWrapper::new(plain_exec, plain_inst, plain_query)));
    i.plain = i.app.instantiate_contract(c2, Addr::unchecked(&i.u), &cosmwasm_std::Empty {}, &[], "plain", None).map(|a| a.into_string()).unwrap_or_default();
    i
}

fn prog(kind: DOp) -> Rc<Program> {
    let leaf = |fail: bool, tag: &str| Node {
        fail,
        writes: vec![WriteOp::Set(format!("w-{}", tag).into_bytes(), b"1".to_vec())],
        attrs: vec![("k".into(), tag.into())],
        events: vec![("ev".into(), vec![("t".into(), tag.into())])],
        data: Some(tag.as_bytes().to_vec()),
        ..Default::default()
    };
    let nodes = match kind {
        DOp::ExecCaught => {
            let mut root = leaf(false, "root");
            root.subs.push(Sub { id: 7, payload: b"p".to_vec(), reply_on: Mode::Always, msg: Msg::Call { target: Target::SelfC, funds: vec![("x".into(), 1)], node: 1 }, reply: Some(2) });
            root.subs.push(Sub { id: 8, payload: vec![], reply_on: Mode::Success, msg: Msg::BankSend { to: Target::SelfC, coins: vec![("x".into(), 1)] }, reply: Some(3) });
            vec![root, leaf(true, "child"), leaf(false, "reply"), leaf(false, "reply2")]
        }
        DOp::ExecFail | DOp::InstFail => vec![leaf(true, "f")],
        _ => vec![leaf(false, "ok")],
    };
    Rc::new(Program { entry: Entry::WasmSudo { contract: String::new() }, root: 0, nodes })
}

/// Applies one operation and returns its transcript line.
fn apply(i: &mut Inst, op: DOp) -> String {
    if op == DOp::CallPlain {
        let mut root = Node { writes: vec![WriteOp::Set(b"w-plain".to_vec(), b"1".to_vec())], attrs: vec![("k".into(), "plain".into())], ..Default::default() };
        root.subs.push(Sub { id: 9, payload: b"pp".to_vec(), reply_on: Mode::Always, msg: Msg::Call { target: Target::Addr(i.plain.clone()), funds: vec![], node: 1 }, reply: Some(2) });
        let reply = Node { writes: vec![WriteOp::Set(b"w-plain-reply".to_vec(), b"1".to_vec())], ..Default::default() };
        set_script(Rc::new(Program { entry: Entry::WasmSudo { contract: String::new() }, root: 0, nodes: vec![root, Node::default(), reply] }));
    } else {
        set_script(prog(op));
    }
    let first = i.contracts.first().cloned();
    let u = Addr::unchecked(&i.u);
    let resp = |r: cw_multi_test::error::AnyResult<cw_multi_test::AppResponse>| match r {
        Ok(r) => format!("Ok(events={:?}, data={:?})", r.events, r.data),
        Err(_) => "Err".to_string(),
    };
    let line = catch(|| match op {
        DOp::Store => format!("code_id={}", i.app.store_code(Box::new(Puppet { tag: 1 }))),
        DOp::Dup1 => format!("{:?}", i.app.duplicate_code(1).map_err(|_| "Err")),
        DOp::StoreId7 => format!("{:?}", i.app.store_code_with_id(Addr::unchecked(&i.v), 7, Box::new(Puppet { tag: 7 })).map_err(|_| "Err")),
        DOp::Inst | DOp::InstFail => match i.app.instantiate_contract(1, u.clone(), &NodeMsg { n: 0 }, &[coin(2, "x")], "l", Some(i.u.clone())) {
            Ok(a) => {
                i.contracts.push(a.to_string());
                format!("Ok({})", a)
            }
            Err(_) => "Err".into(),
        },
        DOp::Inst2 => match i.app.instantiate2_contract(1, u.clone(), &NodeMsg { n: 0 }, &[], "s", None, Binary::from(vec![9u8, 9])) {
            Ok(a) => {
                i.contracts.push(a.to_string());
                format!("Ok({})", a)
            }
            Err(_) => "Err".into(),
        },
        DOp::ExecOk | DOp::ExecFail | DOp::ExecCaught | DOp::CallPlain => match &first {
            Some(c) => resp(i.app.execute(u.clone(), WasmMsg::Execute { contract_addr: c.clone(), msg: cosmwasm_std::to_json_binary(&NodeMsg { n: 0 }).unwrap(), funds: vec![coin(1, "x")] }.into())),
            None => "no-contract".into(),
        },
        DOp::Sudo => match &first {
            Some(c) => resp(i.app.wasm_sudo(Addr::unchecked(c), &NodeMsg { n: 0 })),
            None => "no-contract".into(),
        },
        // (coins of three denominations, two of them named twice: whatever the bank does with such a
        // list, and whatever it says about it in its events, is the same on every App)
        DOp::Send => resp(i.app.execute(u.clone(), BankMsg::Send { to_address: i.v.clone(), amount: vec![coin(1, "x"), coin(1, i.denom), coin(1, "x"), coin(1, i.denom), coin(1, "x")] }.into())),
        DOp::Mint => resp(i.app.sudo(SudoMsg::Bank(BankSudo::Mint { to_address: i.v.clone(), amount: vec![coin(5, "y")] }))),
        DOp::Delegate => resp(i.app.execute(u.clone(), StakingMsg::Delegate { validator: "val".into(), amount: coin(4, i.denom) }.into())),
        DOp::Delegate2 => resp(i.app.execute(Addr::unchecked(&i.v), StakingMsg::Delegate { validator: "val".into(), amount: coin(3, i.denom) }.into())),
        DOp::BadQuery => {
            use cosmwasm_std::Querier;
            let texts: Vec<String> = [&b"garbage"[..], &br#"{"nosuchmodule":{}}"#[..], &br#"{"bank":{"balance":{"address":1}}}"#[..]].iter().map(|q| format!("{:?}", i.app.raw_query(q))).collect();
            format!("query-errors={:016x}/{}", hash64(&texts, 7), texts.iter().map(|t| t.len()).sum::<usize>())
        }
        DOp::QueryNoContract => {
            let a: Result<cosmwasm_std::Empty, _> = i.app.wrap().query_wasm_smart(i.v.clone(), &NodeMsg { n: 0 });
            let b = i.app.wrap().query_wasm_contract_info(i.v.clone());
            let texts = vec![format!("{:?}", a.map_err(|e| e.to_string())), format!("{:?}", b.map_err(|e| e.to_string()))];
            format!("query-errors={:016x}/{}", hash64(&texts, 8), texts.iter().map(|t| t.len()).sum::<usize>())
        }
        DOp::BadAddrQueries => {
            let mut texts = vec![];
            for k in 0..12 {
                let a: Result<cosmwasm_std::Empty, _> = i.app.wrap().query_wasm_smart(format!("not an address {}", k), &NodeMsg { n: 0 });
                texts.push(format!("{:?}", a.map_err(|e| e.to_string())));
                texts.push(format!("{:?}", i.app.wrap().query_wasm_raw(format!("not an address {}", k), b"k".to_vec()).map_err(|e| e.to_string())));
                texts.push(format!("{:?}", i.app.wrap().query_wasm_contract_info(format!("NOT-AN-ADDRESS-{}", k)).map_err(|e| e.to_string())));
            }
            format!("query-errors={:016x}/{}", hash64(&texts, 9), texts.iter().map(|t| t.len()).sum::<usize>())
        }
        DOp::DelegateUndelegate => {
            let a = resp(i.app.execute(u.clone(), StakingMsg::Delegate { validator: "val".into(), amount: coin(4, i.denom) }.into()));
            let b = resp(i.app.execute(u.clone(), StakingMsg::Undelegate { validator: "val".into(), amount: coin(2, i.denom) }.into()));
            format!("{} / {}", a, b)
        }
        DOp::BlockLong => {
            i.app.update_block(|b| {
                b.height += 1;
                b.time = b.time.plus_seconds(61);
            });
            let bal = i.app.wrap().query_balance(i.u.clone(), i.denom).map(|c| c.amount.u128()).unwrap_or(u128::MAX);
            format!("block={:?} balance={}", i.app.block_info(), bal)
        }
        DOp::Block => {
            i.app.update_block(next_block);
            format!("block={:?}", i.app.block_info())
        }
    });
    let trace = take_trace();
    let reply_errs = take_reply_errs();
    match line {
        Ok(l) => format!("{:?}: {} trace={} replies_verbatim={}", op, l, hash64(&trace, 3), if reply_errs.is_empty() { "-".to_string() } else { format!("{:016x}/{}", hash64(&reply_errs, 6), reply_errs.iter().map(|e| e.len()).sum::<usize>()) }),
        Err(p) => format!("{:?}: PANIC {}", op, p),
    }
}

fn finish_transcript(i: &Inst, mut lines: Vec<String>) -> Vec<String> {
    // every contract answers a smart query and a contract-info query at the end of its history
    for c in &i.contracts {
        let a: Result<cosmwasm_std::Binary, _> = i.app.wrap().query_wasm_smart(c.clone(), &NodeMsg { n: 0 });
        let info = i.app.wrap().query_wasm_contract_info(c.clone());
        lines.push(format!("final query {}: smart={:016x} ok={} info={:?}", c, hash64(&format!("{:?}", a.as_ref().map_err(|e| e.to_string())), 10), a.is_ok(), info.map_err(|e| e.to_string())));
    }
    for id in 1..=8u64 {
        if let Ok(ci) = i.app.wrap().query_wasm_code_info(id) {
            lines.push(format!("code {} creator={} checksum={}", id, ci.creator, ci.checksum.to_hex()));
        }
    }
    lines.push(format!("raw={:032x} block={:?}", hash128(&i.app.storage().data), i.app.block_info()));
    lines
}

fn solo(h: &[DOp]) -> Vec<String> {
    solo_cfg(h, false)
}

fn solo_cfg(h: &[DOp], alt: bool) -> Vec<String> {
    let mut i = fresh_cfg(alt);
    let lines: Vec<String> = h.iter().map(|op| apply(&mut i, *op)).collect();
    finish_transcript(&i, lines)
}

fn histories(alpha: &[DOp], max: usize) -> Vec<Vec<DOp>> {
    let mut out: Vec<Vec<DOp>> = vec![vec![]];
    let mut frontier: Vec<Vec<DOp>> = vec![vec![]];
    for _ in 0..max {
        let mut next = vec![];
        for f in &frontier {
            for a in alpha {
                let mut n = f.clone();
                n.push(*a);
                next.push(n);
            }
        }
        out.extend(next.iter().cloned());
        frontier = next;
    }
    out
}

/// All interleavings of two sequences (as choice vectors: false = take from first).
fn interleavings(n1: usize, n2: usize) -> Vec<Vec<bool>> {
    fn rec(a: usize, b: usize, cur: &mut Vec<bool>, out: &mut Vec<Vec<bool>>) {
        if a == 0 && b == 0 {
            out.push(cur.clone());
            return;
        }
        if a > 0 {
            cur.push(false);
            rec(a - 1, b, cur, out);
            cur.pop();
        }
        if b > 0 {
            cur.push(true);
            rec(a, b - 1, cur, out);
            cur.pop();
        }
    }
    let mut out = vec![];
    rec(n1, n2, &mut vec![], &mut out);
    out
}

pub struct DetOut {
    pub histories: u64,
    pub pairs: u64,
    pub interleaved_runs: u64,
    pub ops: u64,
    pub digest: u64,
    pub distinct_transcripts: usize,
}

pub fn explore(ctx: &Ctx, report: bool, reversed: bool) -> DetOut {
    set_watch(Watch::default());
    let (n_a, len_a, n_b, len_b) = ctx.tier.pick((11, 4, 5, 3), (15, 5, 8, 3));
    // (0) differently configured Apps in one process. This stage runs first and on one thread, so
    // that the order in which the two configurations are first used in this process is fixed:
    // standard first here, the other one first in the second process (`reversed`). Whatever a
    // configuration leaves behind in the process shows as a digest difference between the two.
    let alpha0 = [DOp::Delegate, DOp::Delegate2, DOp::Block, DOp::Inst, DOp::Send, DOp::Mint, DOp::BadAddrQueries, DOp::DelegateUndelegate, DOp::BlockLong];
    let h0 = histories(&alpha0, ctx.tier.pick(3, 4));
    let mut solos0: [Vec<Vec<String>>; 2] = [vec![], vec![]];
    let mut digest_0 = 0u64;
    for alt in if reversed { [true, false] } else { [false, true] } {
        for h in &h0 {
            let t = solo_cfg(h, alt);
            digest_0 = digest_0.wrapping_add(hash64(&(alt, h, &t), 5));
            solos0[alt as usize].push(t);
        }
    }
    let ops = AtomicU64::new(0);
    let runs0 = AtomicU64::new(0);
    let short0: Vec<usize> = (0..h0.len()).filter(|i| h0[*i].len() <= 2).collect();
    short0.par_iter().for_each(|i1| {
        set_watch(Watch::default());
        for i2 in &short0 {
            let (h1, h2) = (&h0[*i1], &h0[*i2]);
            for il in interleavings(h1.len(), h2.len()) {
                // the differently configured App is built first in half of the runs
                for alt_first in [false, true] {
                    let (mut a, mut b);
                    if alt_first {
                        b = fresh_cfg(true);
                        a = fresh_cfg(false);
                    } else {
                        a = fresh_cfg(false);
                        b = fresh_cfg(true);
                    }
                    let (mut l1, mut l2) = (vec![], vec![]);
                    let (mut p1, mut p2) = (0, 0);
                    for second in &il {
                        if *second {
                            l2.push(apply(&mut b, h2[p2]));
                            p2 += 1;
                        } else {
                            l1.push(apply(&mut a, h1[p1]));
                            p1 += 1;
                        }
                    }
                    let t1 = finish_transcript(&a, l1);
                    let t2 = finish_transcript(&b, l2);
                    runs0.fetch_add(1, Relaxed);
                    ops.fetch_add(il.len() as u64, Relaxed);
                    if (t1 != solos0[0][*i1] || t2 != solos0[1][*i2]) && report {
                        ctx.violation(
                            "c19:differently-configured-instances-interfere",
                            json!({"history1": format!("{:?}", h1), "history2 (other staking parameters)": format!("{:?}", h2), "interleaving": il, "other_built_first": alt_first, "app1": t1, "app1_solo": solos0[0][*i1], "app2": t2, "app2_solo": solos0[1][*i2]}),
                        );
                    }
                }
            }
        }
    });
    // (a) every history twice on independently built apps
    let hs = histories(&ALL[..n_a], len_a);
    let distinct = Distinct::default();
    let digest_a: u64 = hs
        .par_chunks(64)
        .map(|ch| {
            set_watch(Watch::default());
            let mut d = 0u64;
            let mut louts = vec![];
            for h in ch {
                let t1 = solo(h);
                let t2 = solo(h);
                ops.fetch_add(2 * h.len() as u64, Relaxed);
                if t1 != t2 && report {
                    let first = t1.iter().zip(&t2).position(|(a, b)| a != b);
                    ctx.violation("c19:same-history-different-transcript", json!({"history": format!("{:?}", h), "first_difference_at": first, "run1": t1, "run2": t2}));
                }
                let th = hash64(&t1, 1);
                louts.push(th);
                d = d.wrapping_add(hash64(&(h, th), 2));
            }
            distinct.extend(louts);
            d
        })
        .reduce(|| 0, |a, b| a.wrapping_add(b));
    // (b) pairs of histories on two apps in the same thread, every interleaving
    let hb = histories(&ALL[..n_b], len_b);
    // second histories: quick uses the shorter ones only
    let len_b2 = ctx.tier.pick(2, len_b);
    let solos: Vec<Vec<String>> = hb.par_iter().map(|h| {
        set_watch(Watch::default());
        solo(h)
    }).collect();
    let runs = AtomicU64::new(0);
    let n2 = hb.iter().filter(|h| h.len() <= len_b2).count();
    let pairs = (hb.len() * n2) as u64;
    let idx: Vec<usize> = (0..hb.len()).collect();
    let digest_b: u64 = idx
        .par_iter()
        .map(|i1| {
            set_watch(Watch::default());
            let mut d = 0u64;
            for i2 in 0..hb.len() {
                if hb[i2].len() > len_b2 {
                    continue;
                }
                let (h1, h2) = (&hb[*i1], &hb[i2]);
                for il in interleavings(h1.len(), h2.len()) {
                    let mut a = fresh();
                    let mut b = fresh();
                    let (mut l1, mut l2) = (vec![], vec![]);
                    let (mut p1, mut p2) = (0, 0);
                    for second in &il {
                        if *second {
                            l2.push(apply(&mut b, h2[p2]));
                            p2 += 1;
                        } else {
                            l1.push(apply(&mut a, h1[p1]));
                            p1 += 1;
                        }
                    }
                    let t1 = finish_transcript(&a, l1);
                    let t2 = finish_transcript(&b, l2);
                    runs.fetch_add(1, Relaxed);
                    ops.fetch_add(il.len() as u64, Relaxed);
                    if (t1 != solos[*i1] || t2 != solos[i2]) && report {
                        ctx.violation(
                            "c19:instances-interfere",
                            json!({"history1": format!("{:?}", h1), "history2": format!("{:?}", h2), "interleaving": il, "app1": t1, "app1_solo": solos[*i1], "app2": t2, "app2_solo": solos[i2]}),
                        );
                    }
                    d = d.wrapping_add(hash64(&(t1, t2), 4));
                }
            }
            d
        })
        .reduce(|| 0, |a, b| a.wrapping_add(b));
    DetOut { histories: hs.len() as u64 + 2 * h0.len() as u64, pairs: pairs + (short0.len() * short0.len()) as u64, interleaved_runs: runs.load(Relaxed) + runs0.load(Relaxed), ops: ops.load(Relaxed), digest: digest_a ^ digest_b.rotate_left(17) ^ digest_0.rotate_left(31), distinct_transcripts: distinct.len() }
}

/// (e) address codecs of different instances on one thread: every sequence of up to `len` calls
/// (validate / canonicalize+humanize / addr_make of one of a few strings on one of four Api
/// objects: Bech32 and Bech32m with the same prefix, Bech32 with another prefix, the default),
/// each sequence on a thread of its own; the answer to the last call must be the answer that call
/// gets when it is the only one its thread ever made.
fn codec_instances(ctx: &Ctx, len: usize) -> (u64, u64) {
    use cosmwasm_std::Api;
    use cw_multi_test::{MockApiBech32, MockApiBech32m};
    fn call(api: usize, op: usize, s: &str) -> String {
        let a32 = MockApiBech32::new("juno");
        let a32m = MockApiBech32m::new("juno");
        let other = MockApiBech32::new("osmo");
        let dflt = MockApi::default();
        let api: &dyn Api = match api {
            0 => &a32,
            1 => &a32m,
            2 => &other,
            _ => &dflt,
        };
        match op {
            0 => format!("{:?}", api.addr_validate(s).map_err(|e| e.to_string())),
            _ => format!("{:?}", api.addr_canonicalize(s).map(|c| api.addr_humanize(&c).map_err(|e| e.to_string())).map_err(|e| e.to_string())),
        }
    }
    let strings: Vec<String> = vec![
        MockApiBech32::new("juno").addr_make("x").into_string(),
        MockApiBech32m::new("juno").addr_make("x").into_string(),
        MockApiBech32::new("osmo").addr_make("x").into_string(),
        MockApi::default().addr_make("x").into_string(),
        "garbage".to_string(),
    ];
    let mut calls: Vec<(usize, usize, usize)> = vec![];
    for api in 0..4 {
        for op in 0..2 {
            for si in 0..strings.len() {
                calls.push((api, op, si));
            }
        }
    }
    let run_seq = |seq: Vec<(usize, usize, usize)>, strings: Vec<String>| -> String {
        std::thread::spawn(move || {
            let mut last = String::new();
            for (api, op, si) in seq {
                last = call(api, op, &strings[si]);
            }
            last
        })
        .join()
        .unwrap_or_else(|_| "PANIC".to_string())
    };
    let solo: Vec<String> = calls.iter().map(|c| run_seq(vec![*c], strings.clone())).collect();
    let mut seqs: Vec<Vec<usize>> = (0..calls.len()).map(|i| vec![i]).collect();
    let mut all: Vec<Vec<usize>> = vec![];
    for _ in 1..len {
        let mut next = vec![];
        for sq in &seqs {
            for i in 0..calls.len() {
                let mut n = sq.clone();
                n.push(i);
                next.push(n);
            }
        }
        all.extend(next.iter().cloned());
        seqs = next;
    }
    let runs = AtomicU64::new(0);
    all.par_iter().for_each(|sq| {
        let got = run_seq(sq.iter().map(|i| calls[*i]).collect(), strings.clone());
        runs.fetch_add(1, Relaxed);
        let last = *sq.last().unwrap();
        if got != solo[last] {
            let show = |i: &usize| {
                let (api, op, si) = calls[*i];
                format!("{}.{}({})", ["MockApiBech32(juno)", "MockApiBech32m(juno)", "MockApiBech32(osmo)", "MockApi"][api], ["addr_validate", "addr_canonicalize+humanize"][op], strings[si])
            };
            ctx.violation("c19:address-codec-instances-interfere", json!({"calls_on_one_thread": sq.iter().map(show).collect::<Vec<_>>(), "answer_to_the_last_call": got, "answer_when_called_alone": solo[last]}));
        }
    });
    (all.len() as u64, runs.load(Relaxed))
}

/// (f) identifiers that differ only in high-order bits / by sign-like patterns, in different
/// instances on one thread: App 1 stores a code under id X and instantiates it, then App 2 does the
/// same with id Y (also X = Y); what App 2 reports (address, events, contract info, code info, raw
/// dump) must be what it reports when it is the only App its thread ever saw. Every ordered pair
/// of ids runs on a thread of its own.
fn code_id_instances(ctx: &Ctx) -> u64 {
    let ids: [u64; 9] = [1, 3, 7, 257, 65_537, 1 << 32, (1 << 32) + 1, (1 << 32) + 3, u64::MAX];
    fn one(id: u64, label: &str) -> Vec<String> {
        set_watch(Watch::default());
        let mut i = fresh();
        let mut out = vec![];
        let creator = Addr::unchecked(&i.v);
        out.push(format!("store {:?}", i.app.store_code_with_id(creator, id, Box::new(Puppet { tag: 1 })).map_err(|_| "Err")));
        set_script(prog(DOp::Inst));
        let u = Addr::unchecked(&i.u);
        match catch(|| i.app.instantiate_contract(id, u.clone(), &NodeMsg { n: 0 }, &[coin(2, "x")], label, Some(i.u.clone()))) {
            Ok(Ok(a)) => {
                out.push(format!("address {}", a));
                out.push(format!("info {:?}", i.app.contract_data(&a).ok()));
                out.push(format!("dump {:?}", i.app.dump_wasm_raw(&a)));
                i.contracts.push(a.into_string());
            }
            Ok(Err(_)) => out.push("instantiate Err".into()),
            Err(p) => out.push(format!("PANIC {}", p)),
        }
        out.push(format!("code {:?}", i.app.wrap().query_wasm_code_info(id).ok()));
        out.push(format!("trace {:016x}", hash64(&take_trace(), 3)));
        out.push(format!("verbatim {:?}", take_reply_errs()));
        finish_transcript(&i, out)
    }
    let mut n = 0u64;
    let solos: Vec<Vec<String>> = ids.iter().map(|id| { let id = *id; std::thread::spawn(move || one(id, "solo")).join().unwrap() }).collect();
    for (xi, x) in ids.iter().enumerate() {
        for (yi, y) in ids.iter().enumerate() {
            let (x, y) = (*x, *y);
            let second = std::thread::spawn(move || {
                let _ = one(x, "solo");
                one(y, "solo")
            })
            .join()
            .unwrap();
            n += 1;
            if second != solos[yi] {
                ctx.violation("c19:instances-interfere:code-ids", json!({"first_app_code_id": x.to_string(), "second_app_code_id": y.to_string(), "second_app": second, "second_app_alone_on_its_thread": solos[yi], "first_index": xi}));
            }
        }
    }
    n
}

/// (g) an App replaced in place, and two Apps swapped: Apps are built over storage snapshots of
/// earlier histories (no genesis writes of their own), asked a fixed battery of queries (supply
/// and balances of every denomination, delegations, validators, contract and code info, raw dumps),
/// then (i) the variable holding the first App is assigned a second App built over another
/// snapshot, (ii) two live Apps are exchanged with `mem::swap`. Every App answers the battery
/// exactly as an App over the same snapshot does when it is the only one its thread ever saw.
fn replaced_instances(ctx: &Ctx) -> u64 {
    fn over(snap: &SnapStorage, alt: bool) -> Inst {
        let api = MockApi::default();
        let app: DApp = AppBuilder::new().with_storage(snap.clone()).build(cw_multi_test::no_init);
        let mut i = Inst { app, contracts: vec![], u: api.addr_make("u").into_string(), v: api.addr_make("v").into_string(), denom: if alt { "ualt" } else { "TOKEN" }, plain: String::new() };
        i.app.store_code(Box::new(Puppet { tag: 1 }));
        i.app.store_code(Box::new(cw_multi_test::ContractWrapper::new(plain_exec, plain_inst, plain_query)));
        i
    }
    fn battery(i: &Inst) -> Vec<String> {
        let q = i.app.wrap();
        let mut out = vec![];
        for d in ["x", "TOKEN", "ualt", "y"] {
            out.push(format!("supply {} {:?}", d, q.query_supply(d).map_err(|e| e.to_string())));
            for who in [&i.u, &i.v] {
                out.push(format!("balance {} {} {:?}", who, d, q.query_balance(who.clone(), d).map_err(|e| e.to_string())));
            }
        }
        for who in [&i.u, &i.v] {
            #[allow(deprecated)]
            out.push(format!("all balances {} {:?}", who, q.query_all_balances(who.clone()).map_err(|e| e.to_string())));
            out.push(format!("delegations {} {:?}", who, q.query_all_delegations(who.clone()).map_err(|e| e.to_string())));
            out.push(format!("delegation {} {:?}", who, q.query_delegation(who.clone(), "val").map_err(|e| e.to_string())));
        }
        out.push(format!("validators {:?}", q.query_all_validators().map_err(|e| e.to_string())));
        out.push(format!("bonded {:?}", q.query_bonded_denom().map_err(|e| e.to_string())));
        finish_transcript(i, out)
    }
    // snapshots: genesis of both configurations, and each after a short history that changes supplies
    let mut snaps: Vec<(String, SnapStorage, bool)> = vec![];
    for alt in [false, true] {
        for h in [vec![], vec![DOp::Mint, DOp::Delegate], vec![DOp::Inst, DOp::Send, DOp::Mint, DOp::Mint]] {
            let mut i = fresh_cfg(alt);
            for op in &h {
                apply(&mut i, *op);
            }
            snaps.push((format!("{} after {:?}", if alt { "other configuration" } else { "standard configuration" }, h), i.app.storage().clone(), alt));
        }
    }
    let snaps = std::sync::Arc::new(snaps);
    let n_snaps = snaps.len();
    let solos: Vec<Vec<String>> = (0..n_snaps)
        .map(|k| {
            let s = snaps.clone();
            std::thread::spawn(move || {
                set_watch(Watch::default());
                battery(&over(&s[k].1, s[k].2))
            })
            .join()
            .unwrap()
        })
        .collect();
    let mut n = 0u64;
    for a in 0..n_snaps {
        for b in 0..n_snaps {
            let s = snaps.clone();
            let (first, replaced, swapped_a, swapped_b) = std::thread::spawn(move || {
                set_watch(Watch::default());
                // (i) replaced in place
                let mut slot = over(&s[a].1, s[a].2);
                let first = battery(&slot);
                slot = over(&s[b].1, s[b].2);
                let replaced = battery(&slot);
                // (ii) swapped
                let mut p = over(&s[a].1, s[a].2);
                let mut q = over(&s[b].1, s[b].2);
                let _ = (battery(&p), battery(&q));
                std::mem::swap(&mut p, &mut q);
                (first, replaced, battery(&q), battery(&p))
            })
            .join()
            .unwrap();
            n += 1;
            for (what, got, want_idx) in [("first App", &first, a), ("App assigned to the same variable", &replaced, b), ("first App after mem::swap", &swapped_a, a), ("second App after mem::swap", &swapped_b, b)] {
                if *got != solos[want_idx] {
                    let diff: Vec<(String, String)> = got.iter().zip(&solos[want_idx]).filter(|(x, y)| x != y).map(|(x, y)| (x.clone(), y.clone())).take(4).collect();
                    ctx.violation("c19:instances-interfere:replaced-or-swapped", json!({"what": what, "first_snapshot": snaps[a].0, "second_snapshot": snaps[b].0, "first_differences (got, alone)": diff}));
                }
            }
        }
    }
    n
}

/// (h) admin / code histories of contracts that share an ADDRESS in different Apps (addresses are
/// deterministic): scripts of contract-info queries, admin hand-overs and migrations after one
/// instantiation; App 1 runs its script, then App 2 runs its own on the same thread. What App 2 is
/// told equals what it is told alone on a thread - for every ordered pair of scripts.
fn admin_history_instances(ctx: &Ctx) -> u64 {
    fn run_script(ops: &[u8]) -> Vec<String> {
        set_watch(Watch::default());
        let mut i = fresh();
        let code3 = i.app.store_code(Box::new(Puppet { tag: 3 }));
        set_script(prog(DOp::Inst));
        let u = Addr::unchecked(&i.u);
        let c = match i.app.instantiate_contract(1, u.clone(), &NodeMsg { n: 0 }, &[], "l", Some(i.u.clone())) {
            Ok(a) => a,
            Err(e) => return vec![format!("instantiate failed {:#}", e)],
        };
        i.contracts.push(c.to_string());
        let mut out = vec![format!("address {}", c)];
        let (mut admin_is_u, mut code_is_1) = (true, true);
        for op in ops {
            match op {
                1 => out.push(format!("info {:?} data {:?}", i.app.wrap().query_wasm_contract_info(c.clone()).map_err(|e| e.to_string()), i.app.contract_data(&c).map_err(|e| e.to_string()))),
                2 => {
                    let (from, to) = if admin_is_u { (i.u.clone(), i.v.clone()) } else { (i.v.clone(), i.u.clone()) };
                    let r = i.app.execute(Addr::unchecked(from), WasmMsg::UpdateAdmin { contract_addr: c.to_string(), admin: to }.into());
                    admin_is_u = !admin_is_u;
                    out.push(format!("update-admin ok={}", r.is_ok()));
                }
                _ => {
                    set_script(prog(DOp::Sudo));
                    let admin = if admin_is_u { i.u.clone() } else { i.v.clone() };
                    let r = i.app.migrate_contract(Addr::unchecked(admin), c.clone(), &NodeMsg { n: 0 }, if code_is_1 { code3 } else { 1 });
                    code_is_1 = !code_is_1;
                    out.push(format!("migrate ok={}", r.is_ok()));
                }
            }
        }
        let _ = take_trace();
        let _ = take_reply_errs();
        finish_transcript(&i, out)
    }
    let mut scripts: Vec<Vec<u8>> = vec![vec![]];
    let mut layer: Vec<Vec<u8>> = vec![vec![]];
    for _ in 0..ctx.tier.pick(3, 4) {
        let mut next = vec![];
        for sq in &layer {
            for o in [1u8, 2, 3] {
                let mut x = sq.clone();
                x.push(o);
                next.push(x);
            }
        }
        scripts.extend(next.iter().cloned());
        layer = next;
    }
    let scripts = std::sync::Arc::new(scripts);
    let solos: Vec<Vec<String>> = scripts.iter().map(|sc| { let sc = sc.clone(); std::thread::spawn(move || run_script(&sc)).join().unwrap() }).collect();
    let solos = std::sync::Arc::new(solos);
    let mut n = 0u64;
    let mut handles = vec![];
    for a in 0..scripts.len() {
        let (scripts2, solos2) = (scripts.clone(), solos.clone());
        handles.push(std::thread::spawn(move || {
            let (scripts, solos) = (scripts2, solos2);
            let mut bad = vec![];
            for b in 0..scripts.len() {
                let _first = run_script(&scripts[a]);
                let second = run_script(&scripts[b]);
                if second != solos[b] {
                    bad.push((a, b, second));
                }
            }
            bad
        }));
        if handles.len() == 16 || a + 1 == scripts.len() {
            for h in handles.drain(..) {
                for (a, b, second) in h.join().unwrap() {
                    let diff: Vec<(String, String)> = second.iter().zip(&solos[b]).filter(|(x, y)| x != y).map(|(x, y)| (x.clone(), y.clone())).take(3).collect();
                    ctx.violation("c19:instances-interfere:contract-info-histories", json!({"first_app_script (1 info, 2 hand admin over, 3 migrate)": scripts[a], "second_app_script": scripts[b], "second_app (got, alone)": diff}));
                }
            }
        }
        n += scripts.len() as u64;
    }
    n
}

/// (i) Apps whose wasm keepers are configured differently (default, two custom checksum
/// generators, a custom address generator), one after the other on one thread: each stores a code,
/// instantiates it with and without salt and reports code info, addresses and contract info - as it
/// does alone on a thread. Every ordered pair of configurations.
fn keeper_config_instances(ctx: &Ctx) -> u64 {
    struct Sums(u8);
    impl cw_multi_test::ChecksumGenerator for Sums {
        fn checksum(&self, creator: &Addr, code_id: u64) -> cosmwasm_std::Checksum {
            cosmwasm_std::Checksum::generate(format!("{}-{}-{}", self.0, creator, code_id).as_bytes())
        }
    }
    struct Addrs2;
    impl cw_multi_test::AddressGenerator for Addrs2 {
        fn contract_address(&self, api: &dyn cosmwasm_std::Api, _storage: &mut dyn cosmwasm_std::Storage, code_id: u64, instance_id: u64) -> cw_multi_test::error::AnyResult<Addr> {
            Ok(api.addr_humanize(&cosmwasm_std::CanonicalAddr::from(format!("custom-address-{:08}-{:08}", code_id, instance_id).into_bytes()))?)
        }
    }
    fn one(cfg: u8) -> Vec<String> {
        set_watch(Watch::default());
        let api = MockApi::default();
        let u = api.addr_make("u");
        let keeper: cw_multi_test::WasmKeeper<cosmwasm_std::Empty, cosmwasm_std::Empty> = match cfg {
            0 => cw_multi_test::WasmKeeper::new(),
            1 => cw_multi_test::WasmKeeper::new().with_checksum_generator(Sums(1)),
            2 => cw_multi_test::WasmKeeper::new().with_checksum_generator(Sums(2)),
            _ => cw_multi_test::WasmKeeper::new().with_address_generator(Addrs2),
        };
        let mut app = AppBuilder::new().with_storage(SnapStorage::new()).with_wasm(keeper).build(cw_multi_test::no_init);
        let mut out = vec![];
        let id = app.store_code_with_creator(u.clone(), Box::new(Puppet { tag: 1 }));
        let dup = app.duplicate_code(id);
        out.push(format!("stored {} copy {:?}", id, dup.as_ref().map_err(|e| e.to_string())));
        for c in [id, dup.unwrap_or(0)] {
            out.push(format!("code {} {:?}", c, app.wrap().query_wasm_code_info(c).map_err(|e| e.to_string())));
        }
        set_script(prog(DOp::Inst));
        let a1 = app.instantiate_contract(id, u.clone(), &NodeMsg { n: 0 }, &[], "plain", None).map_err(|e| format!("{:#}", e));
        set_script(prog(DOp::Inst));
        let a2 = app.instantiate2_contract(id, u.clone(), &NodeMsg { n: 0 }, &[], "salted", None, Binary::from(vec![7u8, 7])).map_err(|e| format!("{:#}", e));
        out.push(format!("plain {:?} salted {:?}", a1, a2));
        for a in [a1, a2].into_iter().flatten() {
            out.push(format!("info {:?}", app.wrap().query_wasm_contract_info(a.clone()).map_err(|e| e.to_string())));
        }
        let _ = take_trace();
        let _ = take_reply_errs();
        out.push(format!("raw={:032x}", hash128(&app.storage().data)));
        out
    }
    let solos: Vec<Vec<String>> = (0..4u8).map(|c| std::thread::spawn(move || one(c)).join().unwrap()).collect();
    let mut n = 0;
    for a in 0..4u8 {
        for b in 0..4u8 {
            let (first, second) = std::thread::spawn(move || (one(a), one(b))).join().unwrap();
            n += 1;
            for (what, got, k) in [("first App", first, a), ("second App", second, b)] {
                if got != solos[k as usize] {
                    let diff: Vec<(String, String)> = got.iter().zip(&solos[k as usize]).filter(|(x, y)| x != y).map(|(x, y)| (x.clone(), y.clone())).take(3).collect();
                    ctx.violation("c19:instances-interfere:differently-configured-wasm-keepers", json!({"what": what, "configurations (0 default, 1 and 2 custom checksum generators, 3 custom address generator)": [a, b], "differences (got, alone)": diff}));
                }
            }
        }
    }
    n
}

/// (j) a helper call that PANICS (an address helper given a prefix no codec accepts - it always
/// panicked) must leave nothing behind: the same short history and the same helper calls give the
/// same transcript before it, after it on the same thread, and after it on another thread.
/// (k) two Apps on one thread whose banks describe the same denomination differently (or not at
/// all): what each tells about the denomination, asked in every order, is what it tells alone.
fn bank_metadata_instances(ctx: &Ctx) -> u64 {
    use cosmwasm_std::{DenomMetadata, PageRequest};
    fn build(cfg: u8) -> App {
        AppBuilder::new().build(|router, _, storage| {
            if cfg > 0 {
                let meta = DenomMetadata { description: format!("description {}", cfg), denom_units: vec![], base: "x".into(), display: format!("display {}", cfg), name: "x".into(), symbol: "X".into(), uri: String::new(), uri_hash: String::new() };
                router.bank.set_denom_metadata(storage, "x".into(), meta).unwrap();
            }
            if cfg == 3 {
                router.bank.set_denom_metadata(storage, "y".into(), DenomMetadata { description: "only here".into(), denom_units: vec![], base: "y".into(), display: "y".into(), name: "y".into(), symbol: "Y".into(), uri: String::new(), uri_hash: String::new() }).unwrap();
            }
        })
    }
    fn ask(app: &App) -> String {
        let single = app.wrap().query_denom_metadata("x").map_err(|e| e.to_string());
        let other = app.wrap().query_denom_metadata("y").map_err(|e| e.to_string());
        let all = app.wrap().query_all_denom_metadata(PageRequest { key: None, limit: 100, reverse: false }).map(|r| r.metadata).map_err(|e| e.to_string());
        format!("x: {:?} y: {:?} all: {:?}", single, other, all)
    }
    let solos: Vec<String> = (0..4u8).map(|c| std::thread::spawn(move || ask(&build(c))).join().unwrap()).collect();
    let mut n = 0;
    for a in 0..4u8 {
        for b in 0..4u8 {
            for order in 0..3u8 {
                // 0: build A, ask A, build B, ask B, ask A; 1: build both, ask A, B, A; 2: build both, ask B, A, B
                let got: Vec<(u8, String)> = std::thread::spawn(move || {
                    let mut out = vec![];
                    if order == 0 {
                        let x = build(a);
                        out.push((a, ask(&x)));
                        let y = build(b);
                        out.push((b, ask(&y)));
                        out.push((a, ask(&x)));
                    } else {
                        let (x, y) = (build(a), build(b));
                        let seq: [(u8, &App); 3] = if order == 1 { [(a, &x), (b, &y), (a, &x)] } else { [(b, &y), (a, &x), (b, &y)] };
                        for (k, app) in seq {
                            out.push((k, ask(app)));
                        }
                    }
                    out
                })
                .join()
                .unwrap();
                n += 1;
                for (i, (k, ans)) in got.iter().enumerate() {
                    if *ans != solos[*k as usize] {
                        ctx.violation("c19:instances-interfere:denomination-metadata", json!({"configurations (0: none, 1..3: own description of x; 3 also describes y)": [a, b], "order": order, "answer_no": i, "got": ans, "alone": solos[*k as usize]}));
                    }
                }
            }
        }
    }
    n
}

fn after_a_panicking_helper(ctx: &Ctx) -> u64 {
    use cw_multi_test::{IntoAddr, IntoBech32, IntoBech32m};
    fn transcript() -> Vec<String> {
        set_watch(Watch::default());
        let mut out = solo(&[DOp::Store, DOp::Inst, DOp::ExecOk]);
        out.push(format!("{} {} {}", "name".into_addr(), "name".into_bech32(), "name".into_bech32m()));
        out.push(format!("{} {}", "name".into_bech32_with_prefix("juno"), "name".into_bech32m_with_prefix("juno")));
        out
    }
    let before = std::thread::spawn(transcript).join();
    let poison: Vec<Result<(), String>> = vec![
        std::thread::spawn(|| { let _ = "x".into_bech32_with_prefix(""); }).join().map_err(|_| "panicked".to_string()),
        std::thread::spawn(|| { let _ = "x".into_bech32m_with_prefix(""); }).join().map_err(|_| "panicked".to_string()),
        std::thread::spawn(|| { let _ = "x".into_addr_with_prefix(""); }).join().map_err(|_| "panicked".to_string()),
    ];
    let after_other_thread = std::thread::spawn(transcript).join();
    let after_same = std::thread::spawn(|| {
        let _ = catch(|| "x".into_bech32_with_prefix(""));
        catch(transcript)
    })
    .join();
    let show = |r: &std::thread::Result<Vec<String>>| match r { Ok(v) => format!("{:016x}", hash64(v, 9)), Err(_) => "PANIC".to_string() };
    let same = match &after_same { Ok(Ok(v)) => Ok(v.clone()), _ => Err(Box::new(()) as Box<dyn std::any::Any + Send>) };
    if before.is_err() || show(&before) != show(&after_other_thread) || show(&before) != show(&same) {
        ctx.violation("c19:a-panicking-helper-call-left-something-behind", json!({"helper_calls_with_an_impossible_prefix": format!("{:?}", poison), "transcript_before": show(&before), "after_on_another_thread": show(&after_other_thread), "after_on_the_same_thread": show(&same)}));
    }
    3
}

pub fn run_c19(ctx: &Ctx) -> i32 {
    crate::tree::puppet::RECORD_ENV.store(true, std::sync::atomic::Ordering::Relaxed);
    let out = explore(ctx, true, false);
    // (c) the whole bounded exploration repeated in a second OS process with another thread count
    let exe = std::env::current_exe().unwrap();
    let child = std::process::Command::new(exe).arg("C19-digest").arg(ctx.tier.name()).env("VERIF_THREADS", "3").output();
    let other = match child {
        Ok(o) => String::from_utf8_lossy(&o.stdout).lines().find_map(|l| l.strip_prefix("DIGEST ").map(|s| s.trim().to_string())),
        Err(e) => machinery_error(&format!("cannot spawn second process: {}", e)),
    };
    let mine = format!("{:016x}", out.digest);
    match &other {
        Some(d) if *d == mine => {}
        Some(d) => ctx.violation("c19:second-process-different-digest", json!({"this_process": mine, "second_process": d})),
        None => machinery_error("second process printed no digest"),
    }
    // (c') environment and call stack: a second process with RUST_BACKTRACE=1 (this one runs with 0)
    let (eh, direct, deep) = env_transcripts();
    let exe = std::env::current_exe().unwrap();
    let child = std::process::Command::new(exe).arg("C19-env-transcripts").arg(ctx.tier.name()).output();
    let theirs: Option<Value> = match child {
        Ok(o) => String::from_utf8_lossy(&o.stdout).lines().find_map(|l| l.strip_prefix("ENVTRANSCRIPTS ").and_then(|s| serde_json::from_str(s.trim()).ok())),
        Err(e) => machinery_error(&format!("cannot spawn second process: {}", e)),
    };
    let Some(theirs) = theirs else { machinery_error("second process printed no transcripts") };
    let conv = |v: &Value| -> Vec<Vec<String>> { serde_json::from_value(v.clone()).unwrap_or_default() };
    let (t_direct, t_deep) = (conv(&theirs["direct"]), conv(&theirs["deep"]));
    if t_direct.len() != eh.len() || t_deep.len() != eh.len() {
        machinery_error("second process printed a different number of transcripts");
    }
    for (i, h) in eh.iter().enumerate() {
        if direct[i] != deep[i] {
            ctx.violation("c19:depends-on-call-stack", json!({"history": format!("{:?}", h), "environment": "RUST_BACKTRACE=0", "called_directly": direct[i], "called_from_another_thread_and_depth": deep[i]}));
        }
        if t_direct[i] != t_deep[i] {
            ctx.violation("c19:depends-on-call-stack:RUST_BACKTRACE=1", json!({"history": format!("{:?}", h), "environment": "RUST_BACKTRACE=1", "called_directly": t_direct[i], "called_from_another_thread_and_depth": t_deep[i], "note": "replies_verbatim=<hash>/<total length> is every Reply handed to reply entry points, verbatim"}));
        }
        if direct[i] != t_direct[i] {
            ctx.violation("c19:depends-on-environment:RUST_BACKTRACE", json!({"history": format!("{:?}", h), "with RUST_BACKTRACE=0": direct[i], "with RUST_BACKTRACE=1": t_direct[i], "note": "replies_verbatim=<hash>/<total length> is every Reply handed to reply entry points, verbatim"}));
        }
    }
    let (codec_seqs, _) = codec_instances(ctx, ctx.tier.pick(2, 3));
    let code_id_pairs = code_id_instances(ctx);
    let replaced_pairs = replaced_instances(ctx);
    let admin_pairs = admin_history_instances(ctx);
    let keeper_pairs = keeper_config_instances(ctx);
    let metadata_runs = bank_metadata_instances(ctx);
    // (d) replay validation of an explicit-state exploration: states reached through snapshot
    // restore must equal the states reached by replaying their histories on one App
    let (regcov, _) = crate::reg::explore_registry(ctx, ctx.tier.pick(3, 4));
    let h = [DOp::Store, DOp::Inst, DOp::ExecCaught, DOp::Block];
    let mut coverage = json!({
        "states": out.histories + out.pairs,
        "transitions": out.ops,
        "traces_validated_against_impl": out.histories + out.interleaved_runs,
        "evaluations": out.histories + out.interleaved_runs,
        "distinct_nontrivial": out.distinct_transcripts,
        "rule": "(a) every history over the operation alphabet up to the length bound, run on two independently built Apps, transcripts (results, events, data, code ids, addresses, checksums, invocation traces, final raw dump) compared; (b) every ordered pair of shorter histories on two Apps in one thread under every interleaving, each transcript compared with its solo transcript; (0) the same with a second, differently configured App (other bonded denomination, unbonding time, rate, commission, balances): solo transcripts of both configurations, and every pair of short histories under every interleaving and both construction orders; (c') histories with caught failures on one thread, directly and from another thread under extra stack frames, in this process (RUST_BACKTRACE=0) and in a second one with RUST_BACKTRACE=1: all four transcripts equal (the transcript includes every Reply verbatim - gas_used and error texts too - and the error texts of malformed and unanswerable queries); (c) digest of everything recomputed in a second OS process with 3 worker threads, which uses the two configurations in the opposite order; distinct_nontrivial = distinct transcripts",
        "exhaustive": true,
        "histories": out.histories, "history_pairs": out.pairs, "interleaved_runs": out.interleaved_runs,
        "digest": mine, "digest_second_process": other, "environment_histories": eh.len(), "address_codec_call_sequences_each_on_its_own_thread": codec_seqs, "code_id_pairs_in_two_apps_each_on_its_own_thread": code_id_pairs, "snapshot_pairs_replaced_in_place_and_swapped": replaced_pairs, "contract_info_script_pairs_in_two_apps": admin_pairs, "wasm_keeper_configuration_pairs": keeper_pairs, "denomination_metadata_runs_of_two_apps": metadata_runs,
        "registry_exploration_replayed": {"states": regcov["states"], "replays": regcov["traces_validated_against_impl"], "mismatches": regcov["replay_mismatches (hidden state; reported by C19)"]},
        "alphabet": ALL.iter().map(|o| format!("{:?}", o)).collect::<Vec<_>>(),
        "caps_hit": [],
        "samples": [{"history": format!("{:?}", h), "transcript": solo(&h)}],
    });
    // last of all (a subject that fails this stage may have poisoned process-wide state)
    coverage["transcripts_around_a_panicking_helper_call"] = json!(after_a_panicking_helper(ctx));
    ctx.finish(coverage, vec!["operations outside the alphabet are not covered; wall-clock dependence would only show if it changed an observable within one run".into()])
}

/// Transcripts of a few histories with caught failures, computed on one thread: directly, and
/// from a freshly spawned thread below some extra stack frames.
pub fn env_transcripts() -> (Vec<Vec<DOp>>, Vec<Vec<String>>, Vec<Vec<String>>) {
    #[inline(never)]
    fn deeper(h: &[DOp], n: u32) -> Vec<String> {
        if n == 0 {
            solo(h)
        } else {
            let r = deeper(h, n - 1);
            std::hint::black_box(r)
        }
    }
    set_watch(Watch::default());
    let hs = histories(&[DOp::Inst, DOp::ExecCaught, DOp::ExecFail, DOp::Block, DOp::BadQuery, DOp::QueryNoContract], 3);
    let direct: Vec<Vec<String>> = hs.iter().map(|h| solo(h)).collect();
    let hs2 = hs.clone();
    let deep: Vec<Vec<String>> = std::thread::spawn(move || {
        set_watch(Watch::default());
        hs2.iter().map(|h| deeper(h, 5)).collect()
    })
    .join()
    .unwrap();
    (hs, direct, deep)
}

pub fn print_env_transcripts() {
    crate::tree::puppet::RECORD_ENV.store(true, std::sync::atomic::Ordering::Relaxed);
    let (_, direct, deep) = env_transcripts();
    println!("ENVTRANSCRIPTS {}", serde_json::to_string(&json!({"direct": direct, "deep": deep})).unwrap());
}

pub fn print_digest(tier: Tier) {
    crate::tree::puppet::RECORD_ENV.store(true, std::sync::atomic::Ordering::Relaxed);
    let ctx = Ctx::new("C19", tier);
    let out = explore(&ctx, false, true);
    println!("DIGEST {:016x}", out.digest);
}

pub fn replay_c19(ctx: &Ctx, _case: &Value) {
    crate::tree::puppet::RECORD_ENV.store(true, std::sync::atomic::Ordering::Relaxed);
    // the whole exploration is cheap: re-run it
    let _ = explore(ctx, true, false);
}
