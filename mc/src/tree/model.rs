//! TreeModel: reference interpreter for message-tree programs over plain maps. Written from
//! the statements of C01-C05, C10, C13; shares no code with /repo.

use super::prog::*;
use super::puppet::{other_of, resolve, Bundle, Dump, EntryKind, ExtBundle, NEvent, ReplyRec, TraceRec, Watch, CONTRACT_ATTR};
use serde::{Deserialize, Serialize};
use std::collections::BTreeMap;

pub type Map = BTreeMap<Vec<u8>, Vec<u8>>;

#[derive(Clone, Debug, PartialEq, Eq, Serialize, Deserialize, Hash)]
pub struct MContract {
    pub code_id: u64,
    pub creator: String,
    pub admin: Option<String>,
    pub label: String,
    pub store: Map,
}

/// Abstract chain state; also the shape in which the real state is observed through public accessors.
#[derive(Clone, Debug, PartialEq, Eq, Serialize, Deserialize, Hash, Default)]
pub struct MState {
    pub contracts: BTreeMap<String, MContract>,
    /// address -> denom -> amount (no zero amounts, no empty maps)
    pub bank: BTreeMap<String, BTreeMap<String, u128>>,
    /// (delegator, validator) -> amount (no zeros)
    pub deleg: BTreeMap<(String, String), u128>,
}

impl MState {
    pub fn balance(&self, addr: &str) -> Coins {
        self.bank.get(addr).map(|m| m.iter().map(|(d, a)| (d.clone(), *a)).collect()).unwrap_or_default()
    }

    /// Bank send: fails without effect if no positive amount or insufficient balance.
    pub fn send(&mut self, from: &str, to: &str, coins: &Coins) -> Result<(), ()> {
        self.burn(from, coins)?;
        self.mint(to, coins)
    }

    pub fn burn(&mut self, from: &str, coins: &Coins) -> Result<(), ()> {
        let pos: Vec<&(String, u128)> = coins.iter().filter(|(_, a)| *a > 0).collect();
        if pos.is_empty() {
            return Err(());
        }
        let mut need: BTreeMap<String, u128> = BTreeMap::new();
        for (d, a) in &pos {
            *need.entry(d.clone()).or_default() += *a;
        }
        let have = self.bank.get(from).cloned().unwrap_or_default();
        for (d, a) in &need {
            if have.get(d).copied().unwrap_or(0) < *a {
                return Err(());
            }
        }
        let e = self.bank.entry(from.to_string()).or_default();
        for (d, a) in &need {
            let v = e.get_mut(d).unwrap();
            *v -= *a;
            if *v == 0 {
                e.remove(d);
            }
        }
        if e.is_empty() {
            self.bank.remove(from);
        }
        Ok(())
    }

    pub fn mint(&mut self, to: &str, coins: &Coins) -> Result<(), ()> {
        let pos: Vec<&(String, u128)> = coins.iter().filter(|(_, a)| *a > 0).collect();
        if pos.is_empty() {
            return Err(());
        }
        let e = self.bank.entry(to.to_string()).or_default();
        for (d, a) in pos {
            *e.entry(d.clone()).or_default() += *a;
        }
        Ok(())
    }
}

#[derive(Clone, Debug, PartialEq, Eq, Serialize, Deserialize)]
pub struct MResp {
    pub events: Vec<NEvent>,
    pub data: Option<Vec<u8>>,
}

/// Static facts about the world that the model needs.
#[derive(Clone, Debug, Default)]
pub struct WorldInfo {
    pub watch: Watch,
    /// codes that exist -> creator
    pub codes: BTreeMap<u64, String>,
    pub validators: Vec<String>,
    pub bonded_denom: String,
    pub staking_module: String,
    /// (code id, instance count) -> address, harvested from the subject's public address generator
    pub addr_table: BTreeMap<(u64, u64), String>,
}

pub fn varint(mut n: usize, out: &mut Vec<u8>) {
    loop {
        let b = (n & 0x7f) as u8;
        n >>= 7;
        if n == 0 {
            out.push(b);
            break;
        }
        out.push(b | 0x80);
    }
}

/// Hand-encoded protobuf `MsgExecuteContractResponse { bytes data = 1; }`.
pub fn encode_execute_response(data: &[u8]) -> Vec<u8> {
    let mut out = vec![];
    if !data.is_empty() {
        out.push(0x0a);
        varint(data.len(), &mut out);
        out.extend_from_slice(data);
    }
    out
}

/// Hand-encoded protobuf `MsgInstantiateContractResponse { string address = 1; bytes data = 2; }`.
pub fn encode_instantiate_response(addr: &str, data: &[u8]) -> Vec<u8> {
    let mut out = vec![];
    if !addr.is_empty() {
        out.push(0x0a);
        varint(addr.len(), &mut out);
        out.extend_from_slice(addr.as_bytes());
    }
    if !data.is_empty() {
        out.push(0x12);
        varint(data.len(), &mut out);
        out.extend_from_slice(data);
    }
    out
}

/// C13 predicate: is the response of this node malformed?
pub fn invalid_response(nd: &Node) -> bool {
    let bad_key = |k: &str| {
        let t = k.trim();
        t.is_empty() || t.starts_with('_')
    };
    if nd.attrs.iter().any(|(k, _)| bad_key(k)) {
        return true;
    }
    for (ty, attrs) in &nd.events {
        if attrs.iter().any(|(k, _)| bad_key(k)) {
            return true;
        }
        if ty.trim().len() < 2 {
            return true;
        }
    }
    false
}

pub fn coins_string(c: &Coins) -> String {
    c.iter().map(|(d, a)| format!("{}{}", a, d)).collect::<Vec<_>>().join(",")
}

pub struct ModelRun<'a> {
    pub prog: &'a Program,
    pub info: &'a WorldInfo,
    pub st: MState,
    pub trace: Vec<TraceRec>,
    pub block: (u64, u64, String),
    /// address created by a top-level instantiate (for helper return values)
    pub created: Vec<String>,
    /// per-message responses of an execute_multi entry
    pub multi: Vec<MResp>,
    /// C13 differential: decide the validity of this node's response the wrong way round
    pub flip_validity_of: Option<usize>,
}

type MResult = Result<MResp, ()>;

impl<'a> ModelRun<'a> {
    pub fn new(prog: &'a Program, info: &'a WorldInfo, st: MState, block: (u64, u64, String)) -> Self {
        ModelRun { prog, info, st, trace: vec![], block, created: vec![], multi: vec![], flip_validity_of: None }
    }

    fn ring(&self) -> &[String] {
        &self.info.watch.ring
    }

    fn bundle(&self, me: &str) -> Bundle {
        let w = &self.info.watch;
        let mut b = Bundle::default();
        b.balances.push((me.to_string(), self.st.balance(me)));
        for a in &w.accounts {
            b.balances.push((a.clone(), self.st.balance(a)));
        }
        for c in &w.ring {
            if c == me {
                continue;
            }
            b.dumps.push((
                c.clone(),
                self.st.contracts.get(c).map(|mc| {
                    let mut store: Dump = mc.store.iter().map(|(k, v)| (k.clone(), v.clone())).collect();
                    // the smart query is answered by the contract's own code
                    store.push((super::puppet::ANSWERED_BY.to_vec(), vec![mc.code_id as u8]));
                    (store, self.st.balance(c))
                }),
            ));
        }
        if w.ext {
            let mut e = ExtBundle::default();
            for c in &w.ring {
                let mc = self.st.contracts.get(c);
                e.raw_pre.push((c.clone(), mc.and_then(|m| m.store.get(&b"pre"[..]).cloned()).unwrap_or_default()));
                e.info.push((c.clone(), mc.map(|m| (m.code_id, m.creator.clone(), m.admin.clone()))));
            }
            for code in &w.codes {
                e.code_creators.push((*code, self.info.codes.get(code).cloned()));
            }
            e.delegation = self.st.deleg.get(&(w.delegator.clone(), w.validator.clone())).copied().unwrap_or(0);
            e.custom_ok = false;
            for a in &w.all_principals {
                e.all_balances.push((a.clone(), self.st.balance(a)));
            }
            for d in super::world::SUPPLY_DENOMS {
                let total: u128 = self.st.bank.values().map(|m| m.get(d).copied().unwrap_or(0)).sum();
                e.supply.push((d.to_string(), total));
            }
            b.ext = Some(e);
        }
        b
    }

    /// Runs the body of node `idx` at `contract`: trace record, writes, failure, response
    /// validation, own events; then its sub-messages. Returns events and (unwrapped) data.
    #[allow(clippy::too_many_arguments)]
    fn run_node(&mut self, kind: EntryKind, contract: &str, idx: usize, sender: Option<&str>, funds: Option<&Coins>, reply: Option<ReplyRec>, entry_event: &str) -> MResult {
        let mc = self.st.contracts.get(contract).ok_or(())?;
        let code_tag = mc.code_id as u8;
        let own_store: Dump = mc.store.iter().map(|(k, v)| (k.clone(), v.clone())).collect();
        let reply_ok: Option<bool> = reply.as_ref().map(|r| r.ok);
        let rec = TraceRec {
            kind,
            code_tag,
            contract: contract.to_string(),
            node: idx,
            sender: sender.map(|s| s.to_string()),
            funds: funds.cloned(),
            block: self.block.clone(),
            own_store,
            bundle: self.bundle(contract),
            reply,
        };
        self.trace.push(rec);
        let prog = self.prog;
        let nd = &prog.nodes[idx];
        {
            let store = &mut self.st.contracts.get_mut(contract).unwrap().store;
            for w in &nd.writes {
                match w {
                    WriteOp::Set(k, v) => {
                        store.insert(k.clone(), v.clone());
                    }
                    WriteOp::Remove(k) => {
                        store.remove(k);
                    }
                }
            }
        }
        if nd.fail || matches!((nd.fail_when, reply_ok), (1, Some(true)) | (2, Some(false))) {
            return Err(());
        }
        if invalid_response(nd) != (self.flip_validity_of == Some(idx)) {
            return Err(());
        }
        let mut events = vec![NEvent { ty: entry_event.to_string(), attrs: vec![(CONTRACT_ATTR.to_string(), contract.to_string())] }];
        if !nd.attrs.is_empty() {
            let mut attrs = vec![(CONTRACT_ATTR.to_string(), contract.to_string())];
            attrs.extend(nd.attrs.iter().cloned());
            events.push(NEvent { ty: "wasm".into(), attrs });
        }
        for (ty, a) in &nd.events {
            let mut attrs = vec![(CONTRACT_ATTR.to_string(), contract.to_string())];
            attrs.extend(a.iter().cloned());
            events.push(NEvent { ty: format!("wasm-{}", ty), attrs });
        }
        let mut data = nd.data.clone();
        for s in &nd.subs {
            let r = self.process_sub(contract, s)?;
            events.extend(r.events);
            if r.data.is_some() {
                data = r.data;
            }
        }
        Ok(MResp { events, data })
    }

    fn process_sub(&mut self, contract: &str, s: &Sub) -> MResult {
        let snapshot = self.st.clone();
        let r = self.dispatch(contract, &s.msg);
        match r {
            Ok(resp) => {
                if s.reply_on.on_ok() {
                    let rr = ReplyRec { id: s.id, payload: s.payload.clone(), ok: true, events: resp.events.clone(), data: resp.data.clone() };
                    let rep = self.run_reply(contract, s, rr)?;
                    let mut events = resp.events;
                    events.extend(rep.events);
                    Ok(MResp { events, data: rep.data })
                } else {
                    Ok(MResp { events: resp.events, data: None })
                }
            }
            Err(()) => {
                self.st = snapshot;
                if s.reply_on.on_err() {
                    let rr = ReplyRec { id: s.id, payload: s.payload.clone(), ok: false, events: vec![], data: None };
                    self.run_reply(contract, s, rr)
                } else {
                    Err(())
                }
            }
        }
    }

    fn run_reply(&mut self, contract: &str, s: &Sub, rr: ReplyRec) -> MResult {
        let idx = s.reply.expect("sub with reply_on != Never has a reply node");
        self.run_node(EntryKind::Reply, contract, idx, None, None, Some(rr), "reply")
    }

    /// Executes one message sent by `sender`.
    pub fn dispatch(&mut self, sender: &str, msg: &Msg) -> MResult {
        match msg {
            Msg::Call { target, funds, node } => {
                let t = resolve(self.ring(), sender, target);
                self.exec_call(sender, &t, funds, *node)
            }
            Msg::BankSend { to, coins } => {
                let t = resolve(self.ring(), sender, to);
                self.st.send(sender, &t, coins)?;
                Ok(MResp {
                    events: vec![NEvent {
                        ty: "transfer".into(),
                        attrs: vec![("recipient".into(), t), ("sender".into(), sender.to_string()), ("amount".into(), coins_string(coins))],
                    }],
                    data: None,
                })
            }
            Msg::BankBurn { coins } => {
                self.st.burn(sender, coins)?;
                Ok(MResp { events: vec![], data: None })
            }
            Msg::Instantiate { code, funds, label, admin, node } => self.exec_instantiate(sender, *code, funds, label, admin.as_deref(), *node, None),
            Msg::Migrate { target, code, node } => {
                let t = resolve(self.ring(), sender, target);
                self.exec_migrate(sender, &t, *code, *node)
            }
            Msg::UpdateAdmin { target, admin } => {
                let t = resolve(self.ring(), sender, target);
                // a new admin must be an address the chain's codec accepts (what is a well-formed
                // address is the address codec's business, C18: the codec itself is the oracle here);
                // a request naming anything else fails without effect
                use cosmwasm_std::Api;
                if cosmwasm_std::testing::MockApi::default().addr_validate(admin).is_err() {
                    return Err(());
                }
                self.set_admin(sender, &t, Some(admin.clone()))
            }
            Msg::ClearAdmin { target } => {
                let t = resolve(self.ring(), sender, target);
                self.set_admin(sender, &t, None)
            }
            Msg::Delegate { validator, denom, amount } => {
                if *amount == 0 || !self.info.validators.contains(validator) || *denom != self.info.bonded_denom {
                    return Err(());
                }
                let sm = self.info.staking_module.clone();
                self.st.send(sender, &sm, &vec![(denom.clone(), *amount)])?;
                *self.st.deleg.entry((sender.to_string(), validator.clone())).or_default() += *amount;
                Ok(MResp { events: vec![NEvent { ty: "delegate".into(), attrs: vec![] }], data: None })
            }
        }
    }

    fn set_admin(&mut self, sender: &str, target: &str, admin: Option<String>) -> MResult {
        let mc = self.st.contracts.get_mut(target).ok_or(())?;
        if mc.admin.as_deref() != Some(sender) {
            return Err(());
        }
        mc.admin = admin;
        Ok(MResp { events: vec![], data: None })
    }

    pub fn exec_call(&mut self, sender: &str, target: &str, funds: &Coins, node: usize) -> MResult {
        if !funds.is_empty() {
            self.st.send(sender, target, funds)?;
        }
        if !self.st.contracts.contains_key(target) {
            return Err(());
        }
        let r = self.run_node(EntryKind::Execute, target, node, Some(sender), Some(funds), None, "execute")?;
        Ok(MResp { events: r.events, data: r.data.map(|d| encode_execute_response(&d)) })
    }

    #[allow(clippy::too_many_arguments)]
    pub fn exec_instantiate(&mut self, sender: &str, code: u64, funds: &Coins, label: &str, admin: Option<&str>, node: usize, fixed_addr: Option<String>) -> MResult {
        if label.is_empty() || !self.info.codes.contains_key(&code) {
            return Err(());
        }
        let addr = match fixed_addr {
            Some(a) => a,
            None => self.info.addr_table.get(&(code, self.st.contracts.len() as u64)).cloned().ok_or(())?,
        };
        if self.st.contracts.contains_key(&addr) {
            return Err(());
        }
        self.st.contracts.insert(
            addr.clone(),
            MContract { code_id: code, creator: sender.to_string(), admin: admin.map(|a| a.to_string()), label: label.to_string(), store: Map::new() },
        );
        if !funds.is_empty() {
            self.st.send(sender, &addr, funds)?;
        }
        let r = self.run_node(EntryKind::Instantiate, &addr, node, Some(sender), Some(funds), None, "instantiate")?;
        self.created.push(addr.clone());
        Ok(MResp { events: r.events, data: Some(encode_instantiate_response(&addr, &r.data.unwrap_or_default())) })
    }

    pub fn exec_migrate(&mut self, sender: &str, target: &str, code: u64, node: usize) -> MResult {
        if !self.info.codes.contains_key(&code) {
            return Err(());
        }
        let mc = self.st.contracts.get_mut(target).ok_or(())?;
        if mc.admin.as_deref() != Some(sender) {
            return Err(());
        }
        mc.code_id = code;
        let r = self.run_node(EntryKind::Migrate, target, node, None, None, None, "migrate")?;
        Ok(MResp { events: r.events, data: r.data.map(|d| encode_execute_response(&d)) })
    }

    pub fn exec_sudo(&mut self, target: &str, node: usize) -> MResult {
        if !self.st.contracts.contains_key(target) {
            return Err(());
        }
        self.run_node(EntryKind::Sudo, target, node, None, None, None, "sudo")
    }

    /// Runs the whole program as one top-level transaction: all-or-nothing.
    pub fn run_top(&mut self) -> MResult {
        let snapshot = self.st.clone();
        let prog = self.prog;
        let r = match &prog.entry {
            Entry::Execute { sender, contract, funds } | Entry::ExecuteHelper { sender, contract, funds } => self.exec_call(sender, contract, funds, prog.root),
            Entry::WasmSudo { contract } | Entry::SudoWasm { contract } => self.exec_sudo(contract, prog.root),
            Entry::Instantiate { sender, code, funds, label, admin } | Entry::InstantiateHelper { sender, code, funds, label, admin } => {
                self.exec_instantiate(sender, *code, funds, label, admin.as_deref(), prog.root, None)
            }
            Entry::Instantiate2Helper { .. } => Err(()), // handled by the C11 engine, not the tree model
            Entry::Migrate { sender, contract, code } | Entry::MigrateHelper { sender, contract, code } => self.exec_migrate(sender, contract, *code, prog.root),
            Entry::Multi { sender, msgs } => {
                let mut last = Ok(MResp { events: vec![], data: None });
                for m in msgs {
                    match self.dispatch(sender, m) {
                        Ok(r) => {
                            self.multi.push(r.clone());
                            last = Ok(r);
                        }
                        Err(()) => {
                            last = Err(());
                            break;
                        }
                    }
                }
                last
            }
            Entry::User { sender, msg } => self.dispatch(sender, msg),
            Entry::AccessorWrite { contract, write } => {
                if let Some(c) = self.st.contracts.get_mut(contract) {
                    match write {
                        WriteOp::Set(k, v) => {
                            c.store.insert(k.clone(), v.clone());
                        }
                        WriteOp::Remove(k) => {
                            c.store.remove(k);
                        }
                    }
                    Ok(MResp { events: vec![], data: None })
                } else {
                    Err(())
                }
            }
            Entry::SudoMint { to, coins } => self.st.mint(to, coins).map(|_| MResp { events: vec![], data: None }),
            Entry::SendHelper { from, to, coins } => {
                let m = Msg::BankSend { to: Target::Addr(to.clone()), coins: coins.clone() };
                self.dispatch(from, &m)
            }
        };
        if r.is_err() {
            self.st = snapshot;
        }
        r
    }
}

#[allow(dead_code)]
pub fn other(ring: &[String], me: &str) -> String {
    other_of(ring, me)
}
