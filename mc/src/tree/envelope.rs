//! Two small exhaustive stages around the reply entry point, with contracts built through
//! `ContractWrapper` (the tree engine's puppets always have a reply entry point and never look at
//! `msg_responses`):
//!
//! * C03 "reply envelope": for every kind of sub-message the simulator answers itself (wasm execute
//!   with / without data, instantiate, instantiate2, migrate, update-admin, clear-admin, bank send,
//!   bank burn) x reply_on {Success, Always} x {dispatched by the root, dispatched one level down},
//!   the one Reply handed over carries id and payload unchanged, and a `msg_responses` list that is
//!   exactly one response whose value is the response data and whose type URL names the response
//!   of the message that was sent.
//! * C02 "dispatcher without a reply entry point": a failing sub-message sent with reply_on Error or
//!   Always by a contract that has no reply handler is not absorbed (no handler succeeded), whether
//!   or not an outer level catches it; the same cases with a handler (succeeding / failing) are the
//!   control.

use crate::common::*;
use cosmwasm_schema::cw_serde;
use cosmwasm_std::{coin, to_json_binary, Addr, BankMsg, Binary, CosmosMsg, Deps, DepsMut, Empty, Env, MessageInfo, Reply, ReplyOn, Response, StdError, StdResult, SubMsg, SubMsgResult, WasmMsg};
use cw_multi_test::{App, AppBuilder, BankKeeper, Contract, ContractWrapper, Executor};
use cosmwasm_std::testing::MockApi;
use serde_json::{json, Value};
use std::cell::RefCell;

#[cw_serde]
pub struct EMsg {
    /// 0 dispatch the scripted sub-message, 1 callee returning data, 2 callee without data,
    /// 3 failing callee, 4 relay: call `next` with op 0 under the outer reply_on
    pub op: u8,
}

#[derive(Clone, Default)]
struct Script {
    kind: u8,
    mode: u8,
    outer_mode: u8,
    reply_fails: bool,
    callee: String,
    dispatcher: String,
    victim: String,
    code: u64,
}

thread_local! {
    static SCRIPT: RefCell<Script> = RefCell::new(Script::default());
    static REPLIES: RefCell<Vec<(String, Reply)>> = const { RefCell::new(Vec::new()) };
}

const KIND_NAMES: [&str; 10] = ["execute (callee returns data)", "execute (callee returns no data)", "instantiate", "instantiate2", "migrate", "update-admin", "clear-admin", "bank send", "bank burn", "execute (callee fails)"];

fn modes(m: u8) -> ReplyOn {
    [ReplyOn::Never, ReplyOn::Success, ReplyOn::Error, ReplyOn::Always][m as usize].clone()
}

fn message(sc: &Script) -> CosmosMsg {
    let bin = |op: u8| to_json_binary(&EMsg { op }).unwrap();
    match sc.kind {
        0 => WasmMsg::Execute { contract_addr: sc.callee.clone(), msg: bin(1), funds: vec![] }.into(),
        1 => WasmMsg::Execute { contract_addr: sc.callee.clone(), msg: bin(2), funds: vec![] }.into(),
        2 => WasmMsg::Instantiate { admin: None, code_id: sc.code, msg: to_json_binary(&Empty {}).unwrap(), funds: vec![], label: "child".into() }.into(),
        3 => WasmMsg::Instantiate2 { admin: None, code_id: sc.code, label: "child2".into(), msg: to_json_binary(&Empty {}).unwrap(), funds: vec![], salt: Binary::from(b"salt") }.into(),
        4 => WasmMsg::Migrate { contract_addr: sc.victim.clone(), new_code_id: sc.code, msg: bin(2) }.into(),
        5 => WasmMsg::UpdateAdmin { contract_addr: sc.victim.clone(), admin: sc.callee.clone() }.into(),
        6 => WasmMsg::ClearAdmin { contract_addr: sc.victim.clone() }.into(),
        7 => BankMsg::Send { to_address: sc.callee.clone(), amount: vec![coin(1, "x")] }.into(),
        8 => BankMsg::Burn { amount: vec![coin(1, "x")] }.into(),
        10 => CosmosMsg::Any(cosmwasm_std::AnyMsg { type_url: "/emit.Msg".into(), value: Binary::from(b"any") }),
        _ => WasmMsg::Execute { contract_addr: sc.callee.clone(), msg: bin(3), funds: vec![] }.into(),
    }
}

/// Type URL of the response of each kind: the protobuf names of wasmd's / the SDK's Msg services.
fn type_url(kind: u8) -> &'static str {
    match kind {
        0 | 1 | 9 => "/cosmwasm.wasm.v1.MsgExecuteContractResponse",
        2 => "/cosmwasm.wasm.v1.MsgInstantiateContractResponse",
        3 => "/cosmwasm.wasm.v1.MsgInstantiateContract2Response",
        4 => "/cosmwasm.wasm.v1.MsgMigrateContractResponse",
        5 => "/cosmwasm.wasm.v1.MsgUpdateAdminResponse",
        6 => "/cosmwasm.wasm.v1.MsgClearAdminResponse",
        7 => "/cosmos.bank.v1beta1.MsgSendResponse",
        _ => "/cosmos.bank.v1beta1.MsgBurnResponse",
    }
}

fn execute(deps: DepsMut, env: Env, _info: MessageInfo, msg: EMsg) -> Result<Response, StdError> {
    let sc = SCRIPT.with(|s| s.borrow().clone());
    match msg.op {
        0 => {
            deps.storage.set(b"own", b"1");
            Ok(Response::new().add_submessage(SubMsg { id: 41, payload: Binary::from(b"pl"), msg: message(&sc), gas_limit: None, reply_on: modes(sc.mode) }))
        }
        1 => {
            deps.storage.set(b"callee", b"1");
            Ok(Response::new().set_data(b"d").add_attribute("who", env.contract.address))
        }
        2 => {
            deps.storage.set(b"callee", b"1");
            Ok(Response::new())
        }
        3 => {
            deps.storage.set(b"callee", b"1");
            Err(StdError::generic_err("callee fails"))
        }
        _ => {
            deps.storage.set(b"outer", b"1");
            Ok(Response::new().add_submessage(SubMsg { id: 40, payload: Binary::from(b"outer"), msg: WasmMsg::Execute { contract_addr: sc.dispatcher.clone(), msg: to_json_binary(&EMsg { op: 0 }).unwrap(), funds: vec![] }.into(), gas_limit: None, reply_on: modes(sc.outer_mode) }))
        }
    }
}
fn instantiate(_deps: DepsMut, _env: Env, _info: MessageInfo, _msg: Empty) -> Result<Response, StdError> {
    Ok(Response::new().set_data(b"init-data"))
}
fn query(_deps: Deps, _env: Env, _msg: Empty) -> StdResult<Binary> {
    to_json_binary("q")
}
fn migrate(_deps: DepsMut, _env: Env, _msg: EMsg) -> Result<Response, StdError> {
    Ok(Response::new().set_data(b"mig-data"))
}
fn reply(deps: DepsMut, env: Env, msg: Reply) -> Result<Response, StdError> {
    let sc = SCRIPT.with(|s| s.borrow().clone());
    let inner = msg.id == 41;
    REPLIES.with(|r| r.borrow_mut().push((env.contract.address.to_string(), msg)));
    if inner && sc.reply_fails {
        return Err(StdError::generic_err("reply fails"));
    }
    deps.storage.set(b"replied", b"1");
    Ok(Response::new())
}

fn with_reply() -> Box<dyn Contract<Empty>> {
    Box::new(ContractWrapper::new(execute, instantiate, query).with_reply(reply).with_migrate(migrate))
}
fn without_reply() -> Box<dyn Contract<Empty>> {
    Box::new(ContractWrapper::new(execute, instantiate, query).with_migrate(migrate))
}

type EApp = App<BankKeeper, MockApi, SnapStorage>;

struct EWorld {
    app: EApp,
    user: String,
    /// dispatcher with a reply entry point / without one
    p: String,
    n: String,
    outer: String,
    callee: String,
    victim_p: String,
    victim_n: String,
    code_p: u64,
    genesis: SnapStorage,
}

fn world() -> EWorld {
    let api = MockApi::default();
    let user = api.addr_make("user").into_string();
    let ua = Addr::unchecked(&user);
    let mut app: EApp = AppBuilder::new().with_storage(SnapStorage::new()).build(|router, _, storage| {
        router.bank.init_balance(storage, &ua, vec![coin(100, "x")]).unwrap();
    });
    let code_p = app.store_code(with_reply());
    let code_n = app.store_code(without_reply());
    let mk = |app: &mut EApp, code: u64, label: &str, admin: Option<String>| app.instantiate_contract(code, ua.clone(), &Empty {}, &[coin(5, "x")], label, admin).unwrap().into_string();
    let p = mk(&mut app, code_p, "p", None);
    let n = mk(&mut app, code_n, "n", None);
    let outer = mk(&mut app, code_p, "outer", None);
    let callee = mk(&mut app, code_p, "callee", None);
    let victim_p = mk(&mut app, code_p, "victim-p", Some(p.clone()));
    let victim_n = mk(&mut app, code_p, "victim-n", Some(n.clone()));
    let genesis = app.storage().clone();
    EWorld { app, user, p, n, outer, callee, victim_p, victim_n, code_p, genesis }
}

fn case_json(stage: &str, kind: u8, mode: u8, nested: bool, outer_mode: u8, has_reply: bool, reply_fails: bool) -> Value {
    json!({"engine": "envelope", "stage": stage, "sub_message": (KIND_NAMES[kind as usize]), "kind": kind, "reply_on": (["never", "success", "error", "always"][mode as usize]), "mode": mode,
           "dispatched_one_level_down": nested, "outer_reply_on": (["never", "success", "error", "always"][outer_mode as usize]), "outer_mode": outer_mode,
           "dispatcher_has_reply_entry_point": has_reply, "reply_handler_fails": reply_fails})
}

fn run(w: &mut EWorld, kind: u8, mode: u8, nested: bool, outer_mode: u8, has_reply: bool, reply_fails: bool) -> (Result<bool, String>, Vec<(String, Reply)>, bool) {
    w.app.storage_mut().clone_from(&w.genesis);
    let dispatcher = if has_reply { w.p.clone() } else { w.n.clone() };
    let victim = if has_reply { w.victim_p.clone() } else { w.victim_n.clone() };
    SCRIPT.with(|s| *s.borrow_mut() = Script { kind, mode, outer_mode, reply_fails, callee: w.callee.clone(), dispatcher: dispatcher.clone(), victim, code: w.code_p });
    REPLIES.with(|r| r.borrow_mut().clear());
    let before = w.app.storage().data.clone();
    let user = Addr::unchecked(&w.user);
    let res = catch(|| {
        if nested {
            w.app.execute_contract(user, Addr::unchecked(&w.outer), &EMsg { op: 4 }, &[])
        } else {
            w.app.execute_contract(user, Addr::unchecked(&dispatcher), &EMsg { op: 0 }, &[])
        }
    });
    let replies = REPLIES.with(|r| std::mem::take(&mut *r.borrow_mut()));
    let unchanged = w.app.storage().data == before;
    (res.map(|r| r.is_ok()), replies, unchanged)
}

/// C03: what the one Reply carries.
pub fn envelope_case(ctx: &Ctx, w: &mut EWorld, kind: u8, mode: u8, nested: bool) -> u64 {
    let cj = case_json("reply-envelope", kind, mode, nested, 1, true, false);
    let (res, replies, _) = run(w, kind, mode, nested, 1, true, false);
    match res {
        Err(p) => {
            ctx.violation("c03:panic:reply-envelope", json!({"case": cj, "panic": p}));
            return 1;
        }
        Ok(false) => {
            ctx.violation("c03:reply-envelope:transaction-failed", json!({"case": cj, "expected": "the sub-message succeeds, its reply succeeds"}));
            return 1;
        }
        Ok(true) => {}
    }
    let inner: Vec<&(String, Reply)> = replies.iter().filter(|(_, r)| r.id == 41).collect();
    if inner.len() != 1 || inner[0].0 != w.p {
        ctx.violation("c03:reply-envelope:not-exactly-one-reply-on-the-dispatcher", json!({"case": cj, "replies": replies.iter().map(|(a, r)| format!("{} {:?}", a, r)).collect::<Vec<_>>()}));
        return 1;
    }
    let r = &inner[0].1;
    if r.payload != Binary::from(b"pl") {
        ctx.violation("c03:reply-envelope:payload", json!({"case": cj, "reply": format!("{:?}", r)}));
    }
    match &r.result {
        SubMsgResult::Err(e) => ctx.violation("c03:reply-envelope:result-not-ok", json!({"case": cj, "error": e})),
        SubMsgResult::Ok(resp) => {
            #[allow(deprecated)]
            let data = resp.data.clone();
            // the callee's own data for an execute, nothing for a data-less callee
            let want_data: Option<Option<Binary>> = match kind {
                1 | 5 | 6 | 7 | 8 => Some(None),
                _ => None,
            };
            if let Some(wd) = &want_data {
                if &data != wd {
                    ctx.violation("c03:reply-envelope:data", json!({"case": cj, "data": data.as_ref().map(show_bin), "expected": wd.as_ref().map(show_bin)}));
                }
            } else {
                // execute / instantiate / migrate: the simulator wraps the entry point's data in the message's response type
                let inner: &[u8] = match kind {
                    0 => b"d",
                    4 => b"mig-data",
                    _ => b"init-data",
                };
                let contains = data.as_ref().map(|d| d.as_slice().windows(inner.len()).any(|w| w == inner)).unwrap_or(false);
                if !contains {
                    ctx.violation("c03:reply-envelope:data", json!({"case": cj, "data": data.as_ref().map(show_bin), "expected": format!("a response wrapping the entry point's data {:?}", String::from_utf8_lossy(inner))}));
                }
            }
            let ok = resp.msg_responses.len() == 1 && resp.msg_responses[0].value == data.clone().unwrap_or_default() && resp.msg_responses[0].type_url == type_url(kind);
            if !ok {
                ctx.violation(
                    "c03:reply-envelope:msg_responses",
                    json!({"case": cj, "msg_responses": format!("{:?}", resp.msg_responses), "expected": format!("exactly one response, type_url {} and value = the response data {:?}", type_url(kind), data.as_ref().map(show_bin))}),
                );
            }
        }
    }
    3
}

fn show_bin(b: &Binary) -> String {
    String::from_utf8_lossy(b.as_slice()).into_owned()
}

/// A user-supplied module (here: the stargate / any handler) answers with events of types the
/// simulator itself uses or that look special (`message`, `transfer`, `wasm`, `reply`, `execute`,
/// one letter, empty attribute list) and with data: the Reply of the dispatching contract carries
/// exactly these events, in order, and exactly this data.
struct EmitStargate;
fn emitted_events() -> Vec<cosmwasm_std::Event> {
    use cosmwasm_std::Event;
    vec![
        Event::new("message").add_attribute("module", "emit").add_attribute("sender", "someone"),
        Event::new("transfer").add_attribute("amount", "1x"),
        Event::new("wasm").add_attribute("_contract_address", "not-a-contract"),
        Event::new("reply"),
        Event::new("message").add_attribute("action", "second"),
        Event::new("execute").add_attribute("k", ""),
        Event::new("m"),
    ]
}
impl cw_multi_test::Stargate for EmitStargate {
    fn execute_any<ExecC, QueryC>(&self, _api: &dyn cosmwasm_std::Api, _storage: &mut dyn cosmwasm_std::Storage, _router: &dyn cw_multi_test::CosmosRouter<ExecC = ExecC, QueryC = QueryC>, _block: &cosmwasm_std::BlockInfo, _sender: Addr, _msg: cosmwasm_std::AnyMsg) -> cw_multi_test::error::AnyResult<cw_multi_test::AppResponse>
    where
        ExecC: cosmwasm_std::CustomMsg + serde::de::DeserializeOwned + 'static,
        QueryC: cosmwasm_std::CustomQuery + serde::de::DeserializeOwned + 'static,
    {
        Ok(cw_multi_test::AppResponse { events: emitted_events(), data: Some(Binary::from(b"emit-data")) })
    }
}

fn module_events_stage(ctx: &Ctx) -> u64 {
    let api = MockApi::default();
    let ua = api.addr_make("user");
    let mut n = 0;
    for mode in [1u8, 3] {
        let mut app = AppBuilder::new().with_storage(SnapStorage::new()).with_stargate(EmitStargate).build(|router, _, storage| {
            router.bank.init_balance(storage, &ua, vec![coin(100, "x")]).unwrap();
        });
        let code = app.store_code(with_reply());
        let p = app.instantiate_contract(code, ua.clone(), &Empty {}, &[], "p", None).unwrap();
        SCRIPT.with(|s| *s.borrow_mut() = Script { kind: 10, mode, ..Script::default() });
        REPLIES.with(|r| r.borrow_mut().clear());
        let cj = json!({"engine": "envelope", "stage": "module-events", "reply_on": (["never", "success", "error", "always"][mode as usize]), "mode": mode, "sub_message": "CosmosMsg::Any handled by a user-supplied module"});
        let res = catch(|| app.execute_contract(ua.clone(), p.clone(), &EMsg { op: 0 }, &[]));
        let replies = REPLIES.with(|r| std::mem::take(&mut *r.borrow_mut()));
        n += 1;
        match res {
            Ok(Ok(_)) => {}
            other => {
                ctx.violation("c03:reply-envelope:transaction-failed", json!({"case": cj, "result": format!("{:?}", other.map(|r| r.map(|_| "Ok").map_err(|e| format!("{:#}", e))))}));
                continue;
            }
        }
        if replies.len() != 1 {
            ctx.violation("c03:reply-envelope:not-exactly-one-reply-on-the-dispatcher", json!({"case": cj, "replies": replies.len()}));
            continue;
        }
        match &replies[0].1.result {
            SubMsgResult::Ok(resp) => {
                #[allow(deprecated)]
                let data = resp.data.clone();
                if resp.events != emitted_events() {
                    ctx.violation("c03:reply-envelope:events", json!({"case": cj, "events_in_reply": format!("{:?}", resp.events), "events_the_module_produced": format!("{:?}", emitted_events())}));
                }
                if data != Some(Binary::from(b"emit-data")) {
                    ctx.violation("c03:reply-envelope:data", json!({"case": cj, "data": data.as_ref().map(show_bin), "expected": "emit-data"}));
                }
                // whatever type URL a user-supplied module's answer goes under, the response data is there
                if resp.msg_responses.len() != 1 || resp.msg_responses[0].value != Binary::from(b"emit-data") {
                    ctx.violation("c03:reply-envelope:msg_responses", json!({"case": cj, "msg_responses": format!("{:?}", resp.msg_responses), "expected": "exactly one response whose value is the module's data"}));
                }
            }
            SubMsgResult::Err(e) => ctx.violation("c03:reply-envelope:result-not-ok", json!({"case": cj, "error": e})),
        }
    }
    n
}

pub fn reply_envelope_stage(ctx: &Ctx) -> u64 {
    let mut w = world();
    let mut n = module_events_stage(ctx);
    for kind in 0..9u8 {
        for mode in [1u8, 3] {
            for nested in [false, true] {
                envelope_case(ctx, &mut w, kind, mode, nested);
                n += 1;
            }
        }
    }
    n
}

/// C02: absorbed exactly when reply_on is Error/Always and a reply handler succeeded.
pub fn absorb_case(ctx: &Ctx, w: &mut EWorld, mode: u8, nested: bool, outer_mode: u8, has_reply: bool, reply_fails: bool) -> u64 {
    let cj = case_json("dispatcher-without-reply", 9, mode, nested, outer_mode, has_reply, reply_fails);
    let (res, replies, unchanged) = run(w, 9, mode, nested, outer_mode, has_reply, reply_fails);
    let ok = match res {
        Err(p) => {
            ctx.violation("c02:panic:dispatcher-without-reply", json!({"case": cj, "panic": p}));
            return 1;
        }
        Ok(b) => b,
    };
    let absorbed = (mode == 2 || mode == 3) && has_reply && !reply_fails;
    let outer_absorbs = nested && !absorbed && (outer_mode == 2 || outer_mode == 3);
    // the outer contract's success reply (it has a handler that succeeds) never fails
    let want_ok = absorbed || outer_absorbs;
    let dispatcher = if has_reply { &w.p } else { &w.n };
    let has = |app: &EApp, a: &str, k: &[u8]| app.contract_storage(&Addr::unchecked(a)).get(k).is_some();
    if ok != want_ok {
        ctx.violation(
            if ok { "c02:failure-absorbed-without-a-succeeding-reply-handler" } else { "c02:caught-failure-not-absorbed" },
            json!({"case": cj, "transaction_ok": ok, "expected_ok": want_ok, "replies": replies.iter().map(|(a, r)| format!("{} id={}", a, r.id)).collect::<Vec<_>>()}),
        );
        return 2;
    }
    // the failed callee leaves nothing; the dispatcher's own write stays exactly when the failure was absorbed at its level
    if has(&w.app, &w.callee, b"callee") {
        ctx.violation("c02:failed-sub-message-left-state", json!({"case": cj}));
    }
    if has(&w.app, dispatcher, b"own") != absorbed {
        ctx.violation("c02:dispatcher-state-after-failure", json!({"case": cj, "dispatcher_write_present": !absorbed, "expected_present": absorbed}));
    }
    if !want_ok && !unchanged {
        ctx.violation("c02:failed-transaction-left-state", json!({"case": cj}));
    }
    if nested && want_ok && !has(&w.app, &w.outer, b"outer") {
        ctx.violation("c02:outer-write-lost", json!({"case": cj}));
    }
    4
}

pub fn no_reply_stage(ctx: &Ctx) -> u64 {
    let mut w = world();
    let mut n = 0;
    for has_reply in [false, true] {
        for reply_fails in [false, true] {
            if !has_reply && reply_fails {
                continue;
            }
            for mode in 0..4u8 {
                absorb_case(ctx, &mut w, mode, false, 0, has_reply, reply_fails);
                n += 1;
                for outer_mode in 0..4u8 {
                    absorb_case(ctx, &mut w, mode, true, outer_mode, has_reply, reply_fails);
                    n += 1;
                }
            }
        }
    }
    n
}

pub fn replay(ctx: &Ctx, c: &Value) {
    let c = if c["case"].is_object() { &c["case"] } else { c };
    let mut w = world();
    let u = |k: &str| c[k].as_u64().unwrap_or(0) as u8;
    let b = |k: &str| c[k].as_bool().unwrap_or(false);
    if c["stage"] == "module-events" {
        module_events_stage(ctx);
    } else if c["stage"] == "reply-envelope" {
        envelope_case(ctx, &mut w, u("kind"), u("mode"), b("dispatched_one_level_down"));
    } else {
        absorb_case(ctx, &mut w, u("mode"), b("dispatched_one_level_down"), u("outer_mode"), b("dispatcher_has_reply_entry_point"), b("reply_handler_fails"));
    }
}

// ---------------------------------------------------------------------------------------------
// A chain whose Api accepts several spellings of an address (here: any letter case) and returns
// the normal one. What the chain records and reports is the address the Api returned, never the
// spelling a message happened to use.

struct NormApi(MockApi);
impl cosmwasm_std::Api for NormApi {
    fn addr_validate(&self, human: &str) -> StdResult<Addr> {
        self.0.addr_validate(&human.to_lowercase())
    }
    fn addr_canonicalize(&self, human: &str) -> StdResult<cosmwasm_std::CanonicalAddr> {
        self.0.addr_canonicalize(&human.to_lowercase())
    }
    fn addr_humanize(&self, canonical: &cosmwasm_std::CanonicalAddr) -> StdResult<Addr> {
        self.0.addr_humanize(canonical)
    }
    fn secp256k1_verify(&self, a: &[u8], b: &[u8], c: &[u8]) -> Result<bool, cosmwasm_std::VerificationError> {
        self.0.secp256k1_verify(a, b, c)
    }
    fn secp256k1_recover_pubkey(&self, a: &[u8], b: &[u8], c: u8) -> Result<Vec<u8>, cosmwasm_std::RecoverPubkeyError> {
        self.0.secp256k1_recover_pubkey(a, b, c)
    }
    fn ed25519_verify(&self, a: &[u8], b: &[u8], c: &[u8]) -> Result<bool, cosmwasm_std::VerificationError> {
        self.0.ed25519_verify(a, b, c)
    }
    fn ed25519_batch_verify(&self, a: &[&[u8]], b: &[&[u8]], c: &[&[u8]]) -> Result<bool, cosmwasm_std::VerificationError> {
        self.0.ed25519_batch_verify(a, b, c)
    }
    fn debug(&self, _: &str) {}
}

type NApp = App<BankKeeper, NormApi, SnapStorage>;

fn norm_world() -> (NApp, Addr, Addr, Addr, Addr, u64) {
    let api = MockApi::default();
    let (user, other) = (api.addr_make("user"), api.addr_make("other"));
    let mut app: NApp = AppBuilder::new().with_api(NormApi(MockApi::default())).with_storage(SnapStorage::new()).build(|router, _, storage| {
        router.bank.init_balance(storage, &user, vec![coin(100, "x")]).unwrap();
    });
    let code = app.store_code(with_reply());
    let p = app.instantiate_contract(code, user.clone(), &Empty {}, &[coin(5, "x")], "p", Some(user.to_string())).unwrap();
    let callee = app.instantiate_contract(code, user.clone(), &Empty {}, &[], "callee", Some(user.to_string())).unwrap();
    (app, user, other, p, callee, code)
}

/// C04: every `_contract_address` an event carries is the contract's address, whatever spelling the
/// message that reached the contract used (top level, and as a sub-message with reply).
pub fn normalising_api_events_stage(ctx: &Ctx) -> u64 {
    let mut n = 0;
    for nested in [false, true] {
        let (mut app, user, _other, p, callee, _) = norm_world();
        let known = [p.to_string(), callee.to_string()];
        SCRIPT.with(|s| *s.borrow_mut() = Script { kind: 0, mode: 3, callee: callee.to_string().to_uppercase(), dispatcher: p.to_string(), ..Script::default() });
        REPLIES.with(|r| r.borrow_mut().clear());
        let cj = json!({"engine": "envelope", "stage": "normalising-api-events", "callee_named_in_upper_case": true, "as_sub_message_with_reply": nested});
        let res = catch(|| {
            if nested {
                app.execute(user.clone(), WasmMsg::Execute { contract_addr: p.to_string().to_uppercase(), msg: to_json_binary(&EMsg { op: 0 }).unwrap(), funds: vec![] }.into())
            } else {
                app.execute(user.clone(), WasmMsg::Execute { contract_addr: callee.to_string().to_uppercase(), msg: to_json_binary(&EMsg { op: 1 }).unwrap(), funds: vec![] }.into())
            }
        });
        let replies = REPLIES.with(|r| std::mem::take(&mut *r.borrow_mut()));
        n += 1;
        match res {
            Ok(Ok(resp)) => {
                let mut all_events: Vec<cosmwasm_std::Event> = resp.events.clone();
                for (_, r) in &replies {
                    if let SubMsgResult::Ok(ok) = &r.result {
                        all_events.extend(ok.events.iter().cloned());
                    }
                }
                for ev in &all_events {
                    for a in ev.attributes.iter().filter(|a| a.key == "_contract_address") {
                        if !known.contains(&a.value) {
                            ctx.violation("c04:event-carries-a-spelling-that-is-not-the-contract-address", json!({"case": cj, "event": ev.ty, "value": a.value, "contract_addresses": known}));
                        }
                    }
                }
                if !all_events.iter().any(|e| e.ty == "execute") {
                    ctx.violation("c04:normalising-api:no-execute-event", json!({"case": cj}));
                }
            }
            other => ctx.violation("c04:normalising-api:call-failed", json!({"case": cj, "result": format!("{:?}", other.map(|r| r.map(|_| "Ok").map_err(|e| format!("{:#}", e))))})),
        }
    }
    n
}

/// C12: an admin change names the new admin in another spelling the Api accepts: the admin recorded
/// and reported is the address; that address governs the next attempt, and an account merely
/// spelled like the message text does not.
pub fn normalising_api_admin_stage(ctx: &Ctx) -> u64 {
    let mut n = 0;
    for attempt_by_the_rightful_admin in [true, false] {
        let (mut app, user, other, p, _callee, code) = norm_world();
        let cj = json!({"engine": "envelope", "stage": "normalising-api-admin", "new_admin_named_in_upper_case": true, "next_attempt_by": if attempt_by_the_rightful_admin { "the new admin (normal spelling)" } else { "an account spelled like the message text" }});
        n += 1;
        let upper = other.to_string().to_uppercase();
        match catch(|| app.execute(user.clone(), WasmMsg::UpdateAdmin { contract_addr: p.to_string(), admin: upper.clone() }.into())) {
            Ok(Ok(_)) => {}
            other_r => {
                ctx.violation("c12:normalising-api:admin-change-by-the-admin-failed", json!({"case": cj, "result": format!("{:?}", other_r.map(|r| r.map(|_| "Ok").map_err(|e| format!("{:#}", e))))}));
                continue;
            }
        }
        let recorded = app.contract_data(&p).ok().and_then(|d| d.admin).map(|a| a.into_string());
        let reported = app.wrap().query_wasm_contract_info(p.to_string()).ok().and_then(|i| i.admin).map(|a| a.into_string());
        if recorded.as_deref() != Some(other.as_str()) || reported.as_deref() != Some(other.as_str()) {
            ctx.violation("c12:State:normalising-api", json!({"case": cj, "recorded_admin": recorded, "reported_admin": reported, "the_address_the_api_returned": other.as_str()}));
        }
        let sender = if attempt_by_the_rightful_admin { other.clone() } else { Addr::unchecked(upper.clone()) };
        let r = catch(|| app.migrate_contract(sender.clone(), p.clone(), &EMsg { op: 2 }, code));
        let ok = matches!(r, Ok(Ok(_)));
        if ok != attempt_by_the_rightful_admin {
            ctx.violation("c12:Outcome:normalising-api", json!({"case": cj, "migrate_by": sender.as_str(), "succeeded": ok, "expected_to_succeed": attempt_by_the_rightful_admin}));
        }
    }
    n
}

// ---------------------------------------------------------------------------------------------
// C04: the data envelope at the length boundaries of its encoding

#[cw_serde]
pub struct LMsg {
    pub len: u32,
}
fn l_data(len: u32) -> Vec<u8> {
    (0..len).map(|i| (i % 251) as u8).collect()
}
fn l_execute(_deps: DepsMut, _env: Env, _info: MessageInfo, msg: LMsg) -> Result<Response, StdError> {
    Ok(Response::new().set_data(l_data(msg.len)))
}
fn l_instantiate(_deps: DepsMut, _env: Env, _info: MessageInfo, msg: LMsg) -> Result<Response, StdError> {
    Ok(if msg.len == u32::MAX { Response::new() } else { Response::new().set_data(l_data(msg.len)) })
}
fn l_query(_deps: Deps, _env: Env, _msg: Empty) -> StdResult<Binary> {
    Ok(Binary::default())
}
fn l_migrate(_deps: DepsMut, _env: Env, msg: LMsg) -> Result<Response, StdError> {
    Ok(Response::new().set_data(l_data(msg.len)))
}
fn varint(mut n: usize) -> Vec<u8> {
    let mut out = vec![];
    loop {
        let b = (n & 0x7f) as u8;
        n >>= 7;
        if n == 0 {
            out.push(b);
            return out;
        }
        out.push(b | 0x80);
    }
}
fn field(no: u8, bytes: &[u8]) -> Vec<u8> {
    let mut out = vec![(no << 3) | 2];
    out.extend(varint(bytes.len()));
    out.extend_from_slice(bytes);
    out
}

/// The data of execute, migrate and instantiate is the protobuf envelope (field 1 = data, resp. field
/// 1 = address and field 2 = data) for every data length around the points where the length prefix
/// grows (1, 127, 128, 129, 255, 256, 16383, 16384, 16385 bytes).
pub fn data_length_stage(ctx: &Ctx) -> u64 {
    let mut n = 0;
    let api = MockApi::default();
    let user = api.addr_make("user");
    let mut app = App::default();
    let code = app.store_code(Box::new(ContractWrapper::new(l_execute, l_instantiate, l_query).with_migrate(l_migrate)));
    let c = app.instantiate_contract(code, user.clone(), &LMsg { len: u32::MAX }, &[], "l", Some(user.to_string())).unwrap();
    for len in [1u32, 2, 126, 127, 128, 129, 255, 256, 16383, 16384, 16385, 16511, 16512] {
        for kind in ["execute", "migrate", "instantiate"] {
            n += 1;
            let cj = json!({"engine": "envelope", "stage": "data-length", "kind": kind, "data_length": len});
            let msg: CosmosMsg = match kind {
                "execute" => WasmMsg::Execute { contract_addr: c.to_string(), msg: to_json_binary(&LMsg { len }).unwrap(), funds: vec![] }.into(),
                "migrate" => WasmMsg::Migrate { contract_addr: c.to_string(), new_code_id: code, msg: to_json_binary(&LMsg { len }).unwrap() }.into(),
                _ => WasmMsg::Instantiate { admin: None, code_id: code, msg: to_json_binary(&LMsg { len }).unwrap(), funds: vec![], label: format!("l{}", len) }.into(),
            };
            match catch(|| app.execute(user.clone(), msg)) {
                Ok(Ok(resp)) => {
                    let got = resp.data.clone().map(|b| b.to_vec()).unwrap_or_default();
                    let want = if kind == "instantiate" {
                        let addr = resp.events.iter().find(|e| e.ty == "instantiate").and_then(|e| e.attributes.iter().find(|a| a.key == "_contract_address")).map(|a| a.value.clone()).unwrap_or_default();
                        let mut w = field(1, addr.as_bytes());
                        w.extend(field(2, &l_data(len)));
                        w
                    } else {
                        field(1, &l_data(len))
                    };
                    if got != want {
                        let first = got.iter().zip(want.iter()).position(|(a, b)| a != b).unwrap_or(got.len().min(want.len()));
                        ctx.violation(
                            &format!("c04:data-envelope-malformed:{}", kind),
                            json!({"case": cj, "got_length": got.len(), "want_length": want.len(), "first_difference_at_byte": first, "got_head": hex(&got[..got.len().min(12)]), "want_head": hex(&want[..want.len().min(12)])}),
                        );
                    }
                }
                other => ctx.violation(&format!("c04:data-length:call-failed:{}", kind), json!({"case": cj, "result": format!("{:?}", other.map(|r| r.map(|_| "Ok").map_err(|e| format!("{:#}", e))))})),
            }
        }
    }
    n
}
