//! Exhaustive driver: runs every program of a family from every start state on the real code
//! and on the model, compares, and accumulates coverage statistics.

use super::cmp::*;
use super::families::*;
use super::prog::*;
use super::puppet::*;
use super::world::*;
use crate::common::*;
use cw_multi_test::next_block;
use rayon::prelude::*;
use serde_json::{json, Value};
use std::cell::RefCell;
use std::collections::{BTreeMap, HashSet};
use std::rc::Rc;

thread_local! {
    static WORLD: RefCell<Option<World>> = const { RefCell::new(None) };
}

/// Initial per-denomination balance of the rich account in worlds created from now on
/// (process-wide; set once at the start of a check, before any world exists).
pub static RICH_AMOUNT: std::sync::atomic::AtomicU64 = std::sync::atomic::AtomicU64::new(20);

pub fn with_world<T>(ext: bool, f: impl FnOnce(&mut World) -> T) -> T {
    WORLD.with(|w| {
        let mut g = w.borrow_mut();
        if g.is_none() {
            *g = Some(World::new_with(RICH_AMOUNT.load(std::sync::atomic::Ordering::Relaxed) as u128));
        }
        let world = g.as_mut().unwrap();
        if world.info.watch.ext != ext || WATCH.with(|x| x.borrow().ring.is_empty()) {
            world.set_ext(ext);
        }
        f(world)
    })
}

#[derive(Default, Clone)]
pub struct TreeStats {
    pub programs: u64,
    pub invocations: u64,
    pub ok: u64,
    pub err: u64,
    pub with_reply: u64,
    pub with_caught_failure: u64,
    pub with_rollback_of_writes: u64,
    pub max_trace: usize,
    pub final_states: HashSet<u64>,
    pub foreign: BTreeMap<String, u64>,
    pub home: BTreeMap<String, u64>,
    pub per_family: BTreeMap<String, u64>,
}

impl TreeStats {
    pub fn merge(mut self, o: TreeStats) -> TreeStats {
        self.programs += o.programs;
        self.invocations += o.invocations;
        self.ok += o.ok;
        self.err += o.err;
        self.with_reply += o.with_reply;
        self.with_caught_failure += o.with_caught_failure;
        self.with_rollback_of_writes += o.with_rollback_of_writes;
        self.max_trace = self.max_trace.max(o.max_trace);
        if self.final_states.len() < o.final_states.len() {
            let mut b = o.final_states;
            b.extend(self.final_states);
            self.final_states = b;
        } else {
            self.final_states.extend(o.final_states);
        }
        for (k, v) in o.foreign {
            *self.foreign.entry(k).or_default() += v;
        }
        for (k, v) in o.home {
            *self.home.entry(k).or_default() += v;
        }
        for (k, v) in o.per_family {
            *self.per_family.entry(k).or_default() += v;
        }
        self
    }
}

pub fn program_json(p: &Program) -> Value {
    serde_json::to_value(p).unwrap()
}

/// Runs one (start, program) pair; reports home-kind divergences as violations of ctx.id.
#[allow(clippy::too_many_arguments)]
pub fn run_one(ctx: &Ctx, world: &mut World, fam: &str, start: &StartState, prog: Program, homes: &dyn Fn(Kind) -> bool, st: &mut TreeStats, extra_class: &str) -> (RealOut, ModelOut) {
    let prog = Rc::new(prog);
    let real = world.run_real(start, &prog);
    let model = world.run_model(start, &prog);
    let divs = compare(world, &start.mstate, &prog, &real, &model);
    st.programs += 1;
    st.invocations += real.trace.len() as u64;
    st.max_trace = st.max_trace.max(real.trace.len());
    if real.result.is_ok() {
        st.ok += 1;
    } else {
        st.err += 1;
    }
    if model.trace.iter().any(|r| r.reply.is_some()) {
        st.with_reply += 1;
    }
    if model.trace.iter().any(|r| r.reply.as_ref().map_or(false, |x| !x.ok)) {
        st.with_caught_failure += 1;
    }
    st.final_states.insert(hash64(&real.final_storage.data, 11));
    for d in divs {
        let kname = format!("{:?}", d.kind);
        if homes(d.kind) {
            *st.home.entry(kname.clone()).or_default() += 1;
            ctx.violation(
                &format!("{}:{}{}", ctx.id.to_lowercase(), kname, extra_class),
                json!({"engine": "tree", "ext": world.info.watch.ext, "family": fam, "start": start.name, "divergence": d.detail, "kind": kname, "program": program_json(&prog)}),
            );
        } else {
            *st.foreign.entry(kname).or_default() += 1;
        }
    }
    (real, model)
}

/// All programs of `fam` from every start state.
pub fn drive(ctx: &Ctx, fam: &dyn Family, starts: &[StartState], ext: bool, homes: &(dyn Fn(Kind) -> bool + Sync), sampler: &Sampler) -> TreeStats {
    let total = fam.total();
    let total64 = total as u64;
    let chunk = 512u64;
    let nchunks = (total64 + chunk - 1) / chunk;
    let fname = fam.name();
    let mut stats = (0..nchunks)
        .into_par_iter()
        .map(|c| {
            let mut st = TreeStats::default();
            with_world(ext, |world| {
                let ad = Addrs::of(world);
                for idx in c * chunk..((c + 1) * chunk).min(total64) {
                    for (si, start) in starts.iter().enumerate() {
                        let prog = fam.program(idx as u128, &ad);
                        if si == 0 {
                            sampler.offer(hash64(&(idx, fname.as_str()), 21), || json!({"family": fname, "index": idx, "start": start.name, "program": program_json(&prog)}));
                        }
                        run_one(ctx, world, &fname, start, prog, homes, &mut st, "");
                    }
                }
            });
            st
        })
        .reduce(TreeStats::default, TreeStats::merge);
    *stats.per_family.entry(format!("{} x {} start states", fname, starts.len())).or_default() += total64 * starts.len() as u64;
    stats
}

/// Runs `prog` from `start` on both sides and returns the state reached (used to build
/// non-initial start states). A divergence here is reported like any other.
pub fn advance(ctx: &Ctx, world: &mut World, start: &StartState, prog: Program, name: &str, homes: &dyn Fn(Kind) -> bool, st: &mut TreeStats) -> StartState {
    let (real, model) = run_one(ctx, world, "setup", start, prog, homes, st, ":setup");
    let mstate = resync(world, &real, model.st, st);
    StartState { name: name.to_string(), storage: real.final_storage, block: start.block.clone(), mstate }
}

/// The model state to continue from: the model's own, unless it disagrees with what the real
/// chain shows (the divergence has been classified already); then the observed one.
pub fn resync(world: &World, real: &RealOut, model_st: super::model::MState, st: &mut TreeStats) -> super::model::MState {
    if observable(&model_st, &world.info.staking_module) == real.obs {
        model_st
    } else {
        *st.foreign.entry("model-resynchronised-with-observed-state".into()).or_default() += 1;
        from_observed(&real.obs, &world.info.staking_module)
    }
}

pub fn advance_block(world: &mut World, start: &StartState, name: &str) -> StartState {
    world.app.set_block(start.block.clone());
    *world.app.storage_mut() = start.storage.clone();
    world.app.update_block(next_block);
    StartState { name: name.to_string(), storage: world.app.storage().clone(), block: world.app.block_info(), mstate: start.mstate.clone() }
}

pub struct Starts {
    pub genesis: StartState,
    pub fixed: Vec<StartState>,
}

/// Genesis (three ring contracts) and the fixed non-initial start states of DESIGN §2.4.
pub fn build_starts(ctx: &Ctx, homes: &dyn Fn(Kind) -> bool, st: &mut TreeStats) -> Starts {
    with_world(false, |world| {
        let ad = Addrs::of(world);
        let mut s = world.pre_genesis();
        for (i, p) in world.genesis_programs().into_iter().enumerate() {
            s = advance(ctx, world, &s, p, &format!("genesis-step-{}", i), homes, st);
        }
        let mut genesis = s;
        genesis.name = "genesis".into();
        let core = Core::new(1, 4);
        let mut fixed = vec![];
        // after a committed nested transaction: root -> call other (ok) with reply, plus a bank leaf
        let committed = pick(&core, &ad, |p, m| m.result.is_ok() && p.nodes.len() >= 3 && m.trace.len() >= 3, world, &genesis);
        fixed.push(advance(ctx, world, &genesis, committed, "after-committed-nested-tx", homes, st));
        // after the funded contract was drained
        let drain = Program {
            entry: Entry::Execute { sender: ad.rich.clone(), contract: ad.a.clone(), funds: vec![] },
            root: 0,
            nodes: vec![Node {
                writes: vec![WriteOp::Remove(b"pre".to_vec())],
                subs: vec![Sub { id: 100, payload: vec![], reply_on: Mode::Never, msg: Msg::BankSend { to: Target::Addr(ad.poor.clone()), coins: vec![("x".into(), 5), ("y".into(), 5)] }, reply: None }],
                ..Default::default()
            }],
        };
        fixed.push(advance(ctx, world, &genesis, drain, "after-drain", homes, st));
        // after an instantiate
        let inst = Program { entry: entry_of("instantiate", &ad), root: 0, nodes: vec![Node { writes: vec![WriteOp::Set(b"pre".to_vec(), b"new".to_vec())], ..Default::default() }] };
        fixed.push(advance(ctx, world, &genesis, inst, "after-instantiate", homes, st));
        // after a migrate of A to code 2
        let mig = Program { entry: entry_of("migrate", &ad), root: 0, nodes: vec![Node { writes: vec![WriteOp::Set(b"migrated".to_vec(), b"1".to_vec())], ..Default::default() }] };
        fixed.push(advance(ctx, world, &genesis, mig, "after-migrate", homes, st));
        // after a block update
        fixed.push(advance_block(world, &genesis, "after-block-update"));
        // after a caught failure that rolled back a child and moved funds
        let caught = pick(&core, &ad, |_p, m| m.result.is_ok() && m.trace.iter().any(|r| r.reply.as_ref().map_or(false, |x| !x.ok)) && m.trace.len() >= 4, world, &genesis);
        fixed.push(advance(ctx, world, &genesis, caught, "after-caught-failure", homes, st));
        Starts { genesis, fixed }
    })
}

/// First program of the family (in enumeration order) whose model run satisfies `pred`.
fn pick(fam: &dyn Family, ad: &Addrs, pred: impl Fn(&Program, &ModelOut) -> bool, world: &World, start: &StartState) -> Program {
    for idx in 0..fam.total() {
        let p = fam.program(idx, ad);
        let m = world.run_model(start, &p);
        if pred(&p, &m) {
            return p;
        }
    }
    // the start states are built on the subject: when it has already been caught deviating (the
    // violation is recorded), a start state of the wanted shape may not exist - go on with the first
    // program, the run ends with the violations it has
    if VIOLATIONS_SEEN.load(std::sync::atomic::Ordering::Relaxed) > 0 {
        return fam.program(0, ad);
    }
    machinery_error("no program satisfies the start-state predicate");
}

/// Every state reachable from `from` by at most `depth` transactions of the small alphabet.
pub fn reachable_starts(ctx: &Ctx, from: &StartState, depth: usize, homes: &dyn Fn(Kind) -> bool, st: &mut TreeStats) -> Vec<StartState> {
    with_world(false, |world| {
        let ad = Addrs::of(world);
        let mut alphabet: Vec<Program> = vec![];
        let c = Core::with_entries(1, 2, vec!["execute", "execute-funded"]);
        for i in 0..c.total() {
            alphabet.push(c.program(i, &ad));
        }
        let r = Rich::new(2, 2, vec!["execute"]);
        let n = r.total();
        // every rich size-2 program that is not a plain failure of the root
        for i in (0..n).filter(|i| i % 2 == 0) {
            let p = r.program(i, &ad);
            if alphabet.len() < 40 + 28 {
                alphabet.push(p);
            }
        }
        let mut seen: HashSet<u128> = HashSet::new();
        seen.insert(hash128(&(&from.storage.data, from.block.height)));
        let mut out = vec![from.clone()];
        let mut frontier = vec![from.clone()];
        for d in 0..depth {
            let mut next = vec![];
            for s in &frontier {
                for (i, p) in alphabet.iter().enumerate() {
                    let ns = advance(ctx, world, s, p.clone(), &format!("{}+t{}", s.name, i), homes, st);
                    let k = hash128(&(&ns.storage.data, ns.block.height));
                    if seen.insert(k) {
                        next.push(ns);
                    }
                }
                let nb = advance_block(world, s, &format!("{}+block", s.name));
                let k = hash128(&(&nb.storage.data, nb.block.height));
                if d == 0 && seen.insert(k) {
                    next.push(nb);
                }
            }
            out.extend(next.iter().cloned());
            frontier = next;
        }
        out
    })
}

pub fn stats_json(st: &TreeStats) -> Value {
    json!({
        "programs": st.programs, "entry_point_invocations": st.invocations, "ok": st.ok, "err": st.err,
        "programs_with_reply": st.with_reply, "programs_with_caught_failure": st.with_caught_failure,
        "max_trace_len": st.max_trace, "distinct_final_states": st.final_states.len(),
        "divergences_of_other_properties_seen": st.foreign, "divergences_of_this_property": st.home, "families": st.per_family,
    })
}
