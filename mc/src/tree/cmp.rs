//! Comparator: real execution vs. TreeModel, classified into divergence kinds. Only the first
//! divergence in the invocation trace is classified (later ones are consequences of it).

use super::model::*;
use super::prog::*;
use super::puppet::*;
use super::world::*;
use serde_json::{json, Value};

#[derive(Clone, Copy, Debug, PartialEq, Eq, Hash, PartialOrd, Ord)]
pub enum Kind {
    /// the subject panicked
    Panic,
    /// reply invoked / not invoked / at the wrong place or contract
    ReplyPresence,
    /// a reply the model expects for a FAILED sub-message (reply_on Error/Always) did not happen:
    /// a failure that had to be caught was not
    ReplyMissingForFailure,
    /// the invocation trace diverged, the model says the transaction fails, the real one returned
    /// Ok: a failure that had to propagate was absorbed
    AbsorbedFailure,
    /// reply id / payload / Ok-Err kind wrong
    ReplyArgs,
    /// events inside Reply.result are not what the sub-message produced
    ReplyEvents,
    /// events inside Reply.result differ from the model but are exactly the slice of events the
    /// sub-message contributed to the top-level response (the reply was given what was produced;
    /// the composition of those events is what differs)
    ReplyEventsComposition,
    /// data inside Reply.result wrong
    ReplyData,
    /// a non-reply entry point ran / did not run / in the wrong order
    EntryPresence,
    /// sender / funds / block wrong at entry
    EntryCtx,
    /// the contract's own balance at entry (funds just received / returned) wrong
    EntryBalance,
    /// served by the wrong code version
    CodeTag,
    /// the contract's own storage at entry differs (visibility / rollback)
    EntryStore,
    /// query answers at entry differ (visibility / rollback / purity)
    EntryQuery,
    /// top-level Ok/Err differs
    Outcome,
    /// Err returned but raw storage or block changed
    StateOnErr,
    /// final state differs though trace and outcome agree
    State,
    /// Ok returned, but a state cell the transaction had to change does not hold the expected value
    StateMissing,
    /// top-level response events differ
    RespEvents,
    /// top-level response data differs
    RespData,
    /// helper returned a wrong address
    HelperReturn,
    /// execute_multi: number / order of the per-message responses (identified by their data)
    MultiResponses,
    /// execute_multi: events of the per-message responses
    MultiEvents,
}

#[derive(Clone, Debug)]
pub struct Divergence {
    pub kind: Kind,
    pub detail: Value,
}

pub fn decode_execute_response(w: &[u8]) -> Option<Vec<u8>> {
    // inverse of encode_execute_response for the harness' own encoding
    if w.is_empty() {
        return None;
    }
    let mut i = 1;
    let mut len = 0usize;
    let mut shift = 0;
    while i < w.len() {
        let b = w[i];
        i += 1;
        len |= ((b & 0x7f) as usize) << shift;
        shift += 7;
        if b & 0x80 == 0 {
            break;
        }
    }
    Some(w[i..i + len].to_vec())
}

fn short_rec(r: &TraceRec) -> Value {
    json!({"kind": format!("{:?}", r.kind), "contract": r.contract, "node": if r.node == usize::MAX { json!("none") } else { json!(r.node) },
           "sender": r.sender, "funds": r.funds, "code_tag": r.code_tag,
           "reply": r.reply.as_ref().map(|x| json!({"id": x.id, "ok": x.ok, "payload": String::from_utf8_lossy(&x.payload), "events": x.events.iter().map(|e| e.ty.clone()).collect::<Vec<_>>(), "data": x.data.as_ref().map(|d| crate::common::show(d))}))})
}

fn diff_state(real: &MState, want: &MState) -> Value {
    let mut out = vec![];
    let keys: std::collections::BTreeSet<&String> = real.contracts.keys().chain(want.contracts.keys()).collect();
    for k in keys {
        let (r, w) = (real.contracts.get(k), want.contracts.get(k));
        if r != w {
            out.push(json!({"contract": k, "real": r.map(|c| json!({"code_id": c.code_id, "admin": c.admin, "creator": c.creator, "label": c.label, "store": c.store.iter().map(|(k, v)| format!("{}={}", crate::common::show(k), crate::common::show(v))).collect::<Vec<_>>()})),
                            "model": w.map(|c| json!({"code_id": c.code_id, "admin": c.admin, "creator": c.creator, "label": c.label, "store": c.store.iter().map(|(k, v)| format!("{}={}", crate::common::show(k), crate::common::show(v))).collect::<Vec<_>>()}))}));
        }
    }
    let keys: std::collections::BTreeSet<&String> = real.bank.keys().chain(want.bank.keys()).collect();
    for k in keys {
        if real.bank.get(k) != want.bank.get(k) {
            out.push(json!({"balance_of": k, "real": real.bank.get(k), "model": want.bank.get(k)}));
        }
    }
    if real.deleg != want.deleg {
        out.push(json!({"delegations_real": format!("{:?}", real.deleg), "delegations_model": format!("{:?}", want.deleg)}));
    }
    json!(out)
}

/// Cells (contract key, registry field, balance, delegation) that the model changed relative to
/// `start` and whose value in `real` is not the model's.
fn missing_effects(start: &MState, want: &MState, real: &MState) -> Vec<String> {
    let mut out = vec![];
    for (a, wc) in &want.contracts {
        let sc = start.contracts.get(a);
        let rc = real.contracts.get(a);
        if sc.map(|c| (c.code_id, &c.admin, &c.creator, &c.label)) != Some((wc.code_id, &wc.admin, &wc.creator, &wc.label)) && rc.map(|c| (c.code_id, &c.admin, &c.creator, &c.label)) != Some((wc.code_id, &wc.admin, &wc.creator, &wc.label)) {
            out.push(format!("registry entry of {}", a));
        }
        let empty = Map::new();
        let sstore = sc.map(|c| &c.store).unwrap_or(&empty);
        let rstore = rc.map(|c| &c.store).unwrap_or(&empty);
        for (k, v) in &wc.store {
            if sstore.get(k) != Some(v) && rstore.get(k) != Some(v) {
                out.push(format!("{}[{}]", a, crate::common::show(k)));
            }
        }
        for k in sstore.keys() {
            if !wc.store.contains_key(k) && rstore.contains_key(k) {
                out.push(format!("{}[{}] not removed", a, crate::common::show(k)));
            }
        }
    }
    let addrs: std::collections::BTreeSet<&String> = want.bank.keys().chain(start.bank.keys()).collect();
    for a in addrs {
        let denoms: std::collections::BTreeSet<&String> = want.bank.get(a).into_iter().flat_map(|m| m.keys()).chain(start.bank.get(a).into_iter().flat_map(|m| m.keys())).collect();
        for d in denoms {
            let g = |st: &MState| st.bank.get(a).and_then(|m| m.get(d)).copied().unwrap_or(0);
            if g(want) != g(start) && g(real) != g(want) {
                out.push(format!("balance {} {}", a, d));
            }
        }
    }
    let keys: std::collections::BTreeSet<&(String, String)> = want.deleg.keys().chain(start.deleg.keys()).collect();
    for k in keys {
        let g = |st: &MState| st.deleg.get(k).copied().unwrap_or(0);
        if g(want) != g(start) && g(real) != g(want) {
            out.push(format!("delegation {:?}", k));
        }
    }
    out
}

pub fn compare(world: &World, start: &MState, prog: &Program, real: &RealOut, model: &ModelOut) -> Vec<Divergence> {
    let mut out = vec![];
    if let Some(p) = &real.panicked {
        out.push(Divergence { kind: Kind::Panic, detail: json!({"panic": p}) });
    }
    // model-free invariant: Err leaves every byte of storage (and the block) as before
    if real.result.is_err() && (!real.storage_unchanged || !real.block_unchanged) {
        out.push(Divergence { kind: Kind::StateOnErr, detail: json!({"error": real.result.as_ref().err(), "storage_unchanged": real.storage_unchanged, "block_unchanged": real.block_unchanged}) });
    }
    // trace: first divergence
    let n = real.trace.len().min(model.trace.len());
    let mut trace_div = false;
    for i in 0..n {
        let (r, m) = (&real.trace[i], &model.trace[i]);
        if r == m {
            continue;
        }
        trace_div = true;
        let ctx = json!({"index": i, "real": short_rec(r), "model": short_rec(m)});
        let kind = if r.kind != m.kind || r.contract != m.contract || r.node != m.node {
            if m.kind == EntryKind::Reply && m.reply.as_ref().map_or(false, |x| !x.ok) && !(r.kind == EntryKind::Reply && r.reply.as_ref().map_or(false, |x| !x.ok)) {
                Kind::ReplyMissingForFailure
            } else if r.kind == EntryKind::Reply || m.kind == EntryKind::Reply {
                Kind::ReplyPresence
            } else {
                Kind::EntryPresence
            }
        } else if r.reply.as_ref().map(|x| (x.id, &x.payload, x.ok)) != m.reply.as_ref().map(|x| (x.id, &x.payload, x.ok)) {
            Kind::ReplyArgs
        } else if r.reply != m.reply {
            let (rr, mr) = (r.reply.as_ref().unwrap(), m.reply.as_ref().unwrap());
            let detail = json!({"index": i, "rec": short_rec(r),
                "real_events": &rr.events, "model_events": &mr.events,
                "real_data": rr.data.as_ref().map(|d| crate::common::hex(d)), "model_data": mr.data.as_ref().map(|d| crate::common::hex(d))});
            if rr.events != mr.events {
                // did the reply get exactly what the sub-message contributed to the transaction's events?
                let consistent = match &real.result {
                    Ok((top, _)) => rr.events.is_empty() || top.windows(rr.events.len()).any(|w| w == rr.events.as_slice()),
                    Err(_) => false,
                };
                let undecidable = real.result.is_err();
                out.push(Divergence { kind: if consistent || undecidable { Kind::ReplyEventsComposition } else { Kind::ReplyEvents }, detail: detail.clone() });
            }
            if rr.data != mr.data {
                out.push(Divergence { kind: Kind::ReplyData, detail });
            }
            break;
        } else if r.code_tag != m.code_tag {
            Kind::CodeTag
        } else if r.sender != m.sender || r.funds != m.funds || r.block != m.block || r.bundle.balances.first() != m.bundle.balances.first() {
            out.push(Divergence {
                kind: if r.sender != m.sender || r.funds != m.funds || r.block != m.block { Kind::EntryCtx } else { Kind::EntryBalance },
                detail: json!({"index": i, "rec": short_rec(r), "real": {"sender": r.sender, "funds": r.funds, "block": r.block, "own_balance": r.bundle.balances.first()},
                               "model": {"sender": m.sender, "funds": m.funds, "block": m.block, "own_balance": m.bundle.balances.first()}}),
            });
            break;
        } else if r.own_store != m.own_store {
            out.push(Divergence {
                kind: Kind::EntryStore,
                detail: json!({"index": i, "rec": short_rec(r),
                    "real": r.own_store.iter().map(|(k, v)| format!("{}={}", crate::common::show(k), crate::common::show(v))).collect::<Vec<_>>(),
                    "model": m.own_store.iter().map(|(k, v)| format!("{}={}", crate::common::show(k), crate::common::show(v))).collect::<Vec<_>>()}),
            });
            break;
        } else {
            out.push(Divergence { kind: Kind::EntryQuery, detail: json!({"index": i, "rec": short_rec(r), "real": format!("{:?}", r.bundle), "model": format!("{:?}", m.bundle)}) });
            break;
        };
        out.push(Divergence { kind, detail: ctx });
        break;
    }
    if !trace_div && real.trace.len() != model.trace.len() {
        trace_div = true;
        let (extra, side) = if real.trace.len() > n { (&real.trace[n], "real-has-extra") } else { (&model.trace[n], "real-is-missing") };
        let kind = if extra.kind == EntryKind::Reply {
            if side == "real-is-missing" && extra.reply.as_ref().map_or(false, |x| !x.ok) {
                Kind::ReplyMissingForFailure
            } else {
                Kind::ReplyPresence
            }
        } else {
            Kind::EntryPresence
        };
        out.push(Divergence { kind, detail: json!({"index": n, "side": side, "rec": short_rec(extra)}) });
    }
    if trace_div {
        if real.result.is_ok() && model.result.is_err() && real.panicked.is_none() {
            out.push(Divergence { kind: Kind::AbsorbedFailure, detail: json!({"model": "Err", "real": "Ok", "first_trace_divergence": out.last().map(|d| format!("{:?}", d.kind))}) });
        }
        return out;
    }
    // outcome
    match (&real.result, &model.result) {
        (Ok(_), Err(())) | (Err(_), Ok(_)) => {
            out.push(Divergence { kind: Kind::Outcome, detail: json!({"real": real.result.as_ref().map(|_| "Ok").map_err(|e| e.clone()), "model": if model.result.is_ok() { "Ok" } else { "Err" }}) });
            return out;
        }
        _ => {}
    }
    // final state through public accessors
    let want = observable(&model.st, &world.info.staking_module);
    if real.obs != want {
        out.push(Divergence { kind: Kind::State, detail: json!({"outcome": if real.result.is_ok() { "Ok" } else { "Err" }, "diff": diff_state(&real.obs, &want)}) });
        if real.result.is_ok() {
            let miss = missing_effects(&observable(start, &world.info.staking_module), &want, &real.obs);
            if !miss.is_empty() {
                out.push(Divergence { kind: Kind::StateMissing, detail: json!({"cells_not_holding_the_expected_value": miss, "diff": diff_state(&real.obs, &want)}) });
            }
        }
    }
    if let (Ok((rev, rdata)), Ok(m)) = (&real.result, &model.result) {
        match &prog.entry {
            Entry::InstantiateHelper { .. } | Entry::Instantiate2Helper { .. } => {
                if real.helper_addr.as_ref() != model.created.last() {
                    out.push(Divergence { kind: Kind::HelperReturn, detail: json!({"real": real.helper_addr, "model": model.created.last()}) });
                }
            }
            Entry::Multi { .. } => {
                let got = real.multi.clone().unwrap_or_default();
                let want: Vec<(Vec<NEvent>, Option<Vec<u8>>)> = model.multi.iter().map(|r| (r.events.clone(), r.data.clone())).collect();
                let gd: Vec<&Option<Vec<u8>>> = got.iter().map(|x| &x.1).collect();
                let wd: Vec<&Option<Vec<u8>>> = want.iter().map(|x| &x.1).collect();
                let show_all = |v: &Vec<(Vec<NEvent>, Option<Vec<u8>>)>| v.iter().map(|(e, d)| json!({"events": e.iter().map(|x| x.ty.clone()).collect::<Vec<_>>(), "data": d.as_ref().map(|d| crate::common::show(d))})).collect::<Vec<_>>();
                if gd != wd {
                    out.push(Divergence { kind: Kind::MultiResponses, detail: json!({"real_len": got.len(), "model_len": want.len(), "real": show_all(&got), "model": show_all(&want)}) });
                } else if got != want {
                    out.push(Divergence { kind: Kind::MultiEvents, detail: json!({"real": show_all(&got), "model": show_all(&want)}) });
                }
            }
            Entry::ExecuteHelper { .. } => {
                if *rev != m.events {
                    out.push(Divergence { kind: Kind::RespEvents, detail: json!({"real": rev, "model": m.events}) });
                }
                let want = m.data.as_ref().and_then(|w| decode_execute_response(w)).filter(|d| !d.is_empty());
                let got = rdata.clone().filter(|d| !d.is_empty());
                if got != want {
                    out.push(Divergence { kind: Kind::RespData, detail: json!({"real": rdata.as_ref().map(|d| crate::common::hex(d)), "model_unwrapped": want.map(|d| crate::common::hex(&d))}) });
                }
            }
            _ => {
                if *rev != m.events {
                    out.push(Divergence { kind: Kind::RespEvents, detail: json!({"real": rev, "model": m.events}) });
                }
                if *rdata != m.data {
                    out.push(Divergence { kind: Kind::RespData, detail: json!({"real": rdata.as_ref().map(|d| crate::common::hex(d)), "model": m.data.as_ref().map(|d| crate::common::hex(d))}) });
                }
            }
        }
    }
    out
}
