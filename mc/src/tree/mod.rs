//! Engine E2: message-tree programs against TreeModel.
pub mod checks;
pub mod cmp;
pub mod driver;
pub mod envelope;
pub mod explore;
pub mod hist;
pub mod families;
pub mod model;
pub mod prog;
pub mod puppet;
pub mod world;
