//! Property checks served by the tree engine: C01, C02, C03, C04, C05, C10, C13.

use super::cmp::Kind;
use super::driver::*;
use super::families::*;
use super::prog::*;
use super::puppet::*;
use super::world::*;
use crate::common::*;
use cosmwasm_std::{Addr, BlockInfo, Empty, QueryRequest, Timestamp};
use rayon::prelude::*;
use serde_json::{json, Value};

#[allow(clippy::too_many_arguments)]
fn finish(ctx: &Ctx, st: &TreeStats, starts: usize, sampler: &Sampler, bounds: Value, caps: Vec<String>, mut assumptions: Vec<String>, extra: Value) -> i32 {
    let mut samples = sampler.take();
    samples.truncate(4);
    let coverage = json!({
        "states": st.final_states.len() as u64 + starts as u64,
        "transitions": st.invocations,
        "traces_validated_against_impl": st.programs,
        "evaluations": st.programs,
        "distinct_nontrivial": st.final_states.len(),
        "rule": "one evaluation = one (start state, message-tree program) pair executed on the real App and on TreeModel with the full invocation trace, outcome, response and final state compared; states = distinct raw chain states reached (+ start states); transitions = contract entry-point invocations executed and compared; distinct_nontrivial = distinct final raw states",
        "exhaustive": caps.is_empty(),
        "bounds": bounds,
        "start_states": starts,
        "stats": stats_json(st),
        "extra": extra,
        "caps_hit": caps,
        "samples": samples,
    });
    assumptions.extend([
        "TreeModel (mc/src/tree/model.rs) is the meaning of the statements; contract address values are taken from the subject's public address generator".to_string(),
        "trees larger than the size bound, and message kinds outside the family alphabets, are not covered; sub-trees below a failing node are not enumerated (a failing node emits no sub-messages)".to_string(),
        "only the first divergence of an invocation trace is classified; divergences belonging to other properties are counted, not reported".to_string(),
    ]);
    ctx.finish(coverage, assumptions)
}

fn all_starts(s: &Starts) -> Vec<StartState> {
    let mut all = vec![s.genesis.clone()];
    all.extend(s.fixed.iter().cloned());
    all
}

// ---------------------------------------------------------------------------------------------
// C02 / C03: control flow

fn control_flow(ctx: &Ctx, homes: &(dyn Fn(Kind) -> bool + Sync), rich_entries: Vec<&'static str>, data_event_variants: bool) -> i32 {
    let sampler = Sampler::new(4, ctx.seed);
    let mut st = TreeStats::default();
    let starts = build_starts(ctx, homes, &mut st);
    let all = all_starts(&starts);
    // thorough: all 98.6 M control-flow programs of up to 8 nodes (VERIF_CORE_MAX overrides)
    let deep: usize = std::env::var("VERIF_CORE_MAX").ok().and_then(|s| s.parse().ok()).unwrap_or(8);
    let (core_hi, small_hi, rich_hi, reach_hi, reach_depth) = ctx.tier.pick((6, 4, 3, 3, 1), (deep, 5, 4, 4, 2));
    st = st.merge(drive(ctx, &Core::new(1, core_hi), &[starts.genesis.clone()], false, homes, &sampler));
    st = st.merge(drive(ctx, &Core::new(1, small_hi), &starts.fixed, false, homes, &sampler));
    st = st.merge(drive(ctx, &Rich::new(1, rich_hi, rich_entries), &all[..ctx.tier.pick(2, all.len())], false, homes, &sampler));
    st = st.merge(drive(ctx, &Cond::new(1, ctx.tier.pick(5, 6)), &[starts.genesis.clone()], false, homes, &sampler));
    if data_event_variants {
        // what a reply is told (events and data of the sub-message: present, absent, empty) over all
        // 24 data / event variants per node
        st = st.merge(drive(ctx, &DataEv::new(1, 3, vec!["execute", "migrate"]), &[starts.genesis.clone()], false, homes, &sampler));
    }
    // histories: every state reachable by <= depth small transactions x all small programs
    let reach = reachable_starts(ctx, &starts.genesis, reach_depth, homes, &mut st);
    st = st.merge(drive(ctx, &Core::new(1, reach_hi), &reach, false, homes, &sampler));
    // reply handlers that dispatch again: a dispatcher M (called as a sub-message itself, so that what
    // it produced is told to an outer reply) whose reply handler R1 sends a sub-message with a reply R2;
    // every reply_on at the three levels x outcome of both callees x data set / not set by R1 and R2
    st = st.merge(reply_chain_stage(ctx, &starts.genesis, homes));
    let nstarts = all.len() + reach.len();
    // contracts built through ContractWrapper: what the Reply envelope carries for every kind of
    // sub-message (C03) / a dispatcher without a reply entry point absorbs nothing (C02)
    let wrapper_cases = if data_event_variants { super::envelope::reply_envelope_stage(ctx) } else { super::envelope::no_reply_stage(ctx) };
    st.programs += wrapper_cases;
    finish(
        ctx,
        &st,
        nstarts,
        &sampler,
        json!({"contract_wrapper_stage_cases": wrapper_cases, "core_size_max_from_genesis": core_hi, "core_size_max_from_fixed_states": small_hi, "rich_size_max": rich_hi,
               "reachable_start_states": reach.len(), "reachable_depth": reach_depth, "core_size_max_from_reachable_states": reach_hi,
               "data_event_family_size_max": if data_event_variants { 3 } else { 0 }}),
        vec![],
        vec![],
        json!({}),
    )
}

fn reply_chain_stage(ctx: &Ctx, genesis: &StartState, homes: &(dyn Fn(Kind) -> bool + Sync)) -> TreeStats {
    let mut st = TreeStats::default();
    let mut n = 0u64;
    with_world(false, |world| {
        let ad = Addrs::of(world);
        let modes = [Mode::Success, Mode::Always, Mode::Error];
        for mo in modes {
            for m1 in modes {
                for m2 in modes {
                    for bits in 0..16u8 {
                        let (l_fail, l2_fail, r1_data, r2_data) = (bits & 1 != 0, bits & 2 != 0, bits & 4 != 0, bits & 8 != 0);
                        let mut nodes: Vec<Node> = (0..7)
                            .map(|i| {
                                let mut nd = Node::default();
                                standard_node(i, &mut nd);
                                nd
                            })
                            .collect();
                        nodes[2].fail = l_fail;
                        nodes[4].fail = l2_fail;
                        if !r1_data {
                            nodes[3].data = None;
                        }
                        if !r2_data {
                            nodes[5].data = None;
                        }
                        let call = |node: usize| Msg::Call { target: Target::Other, funds: vec![], node };
                        nodes[0].subs.push(Sub { id: 1, payload: b"outer".to_vec(), reply_on: mo, msg: call(1), reply: Some(6) });
                        nodes[1].subs.push(Sub { id: 2, payload: vec![], reply_on: m1, msg: call(2), reply: Some(3) });
                        nodes[3].subs.push(Sub { id: 3, payload: b"again".to_vec(), reply_on: m2, msg: call(4), reply: Some(5) });
                        let prog = Program { entry: entry_of("execute", &ad), root: 0, nodes };
                        run_one(ctx, world, "reply-chain", genesis, prog, homes, &mut st, "");
                        n += 1;
                    }
                }
            }
        }
    });
    *st.per_family.entry("reply-chain (reply handlers that dispatch again, 7 nodes) x 1 start states".into()).or_default() += n;
    st
}

pub fn run_c02(ctx: &Ctx) -> i32 {
    let homes = |k: Kind| matches!(k, Kind::Outcome | Kind::State | Kind::EntryStore | Kind::EntryQuery | Kind::EntryPresence | Kind::ReplyMissingForFailure | Kind::AbsorbedFailure | Kind::Panic);
    control_flow(ctx, &homes, vec!["execute"], false)
}

pub fn run_c03(ctx: &Ctx) -> i32 {
    let homes = |k: Kind| matches!(k, Kind::ReplyPresence | Kind::ReplyMissingForFailure | Kind::ReplyArgs | Kind::ReplyEvents | Kind::ReplyData | Kind::EntryPresence | Kind::Panic);
    control_flow(ctx, &homes, vec!["execute", "instantiate"], true)
}

// ---------------------------------------------------------------------------------------------
// C04: events and data

pub fn run_c04(ctx: &Ctx) -> i32 {
    let homes = |k: Kind| matches!(k, Kind::RespEvents | Kind::RespData | Kind::ReplyEvents | Kind::ReplyEventsComposition | Kind::ReplyData | Kind::MultiEvents | Kind::Panic);
    let sampler = Sampler::new(4, ctx.seed);
    let mut st = TreeStats::default();
    let starts = build_starts(ctx, &homes, &mut st);
    let all = all_starts(&starts);
    let g = [starts.genesis.clone()];
    let kinds = vec!["execute", "instantiate", "migrate", "wasm-sudo", "execute-helper"];
    let (de_hi, de4, core_hi, rich_hi) = ctx.tier.pick((3, false, 6, 3), (3, true, 7, 4));
    st = st.merge(drive(ctx, &DataEv::new(1, de_hi, kinds.clone()), &g, false, &homes, &sampler));
    if de4 {
        st = st.merge(drive(ctx, &DataEv::new(4, 4, vec!["execute"]), &g, false, &homes, &sampler));
    }
    st = st.merge(drive(ctx, &Core::with_entries(1, core_hi, vec!["execute"]), &g, false, &homes, &sampler));
    st = st.merge(drive(ctx, &Core::with_entries(1, core_hi - 2, vec!["instantiate", "migrate", "wasm-sudo", "sudo-wasm", "execute-helper", "migrate-helper"]), &g, false, &homes, &sampler));
    st = st.merge(drive(ctx, &Rich::new(1, rich_hi, vec!["execute", "instantiate"]), &all[..ctx.tier.pick(1, 3)], false, &homes, &sampler));
    // a chain whose Api normalises addresses: events carry the address, not the message's spelling
    st.programs += super::envelope::normalising_api_events_stage(ctx);
    // the data envelope at the length boundaries of its encoding
    st.programs += super::envelope::data_length_stage(ctx);
    finish(
        ctx,
        &st,
        all.len(),
        &sampler,
        json!({"data_event_size_max": if de4 { 4 } else { de_hi }, "data_event_variants_per_node": 24, "core_size_max": core_hi, "rich_size_max": rich_hi, "root_kinds": kinds}),
        vec![],
        vec!["attribute values beyond the small alphabet are covered by C13".into()],
        json!({}),
    )
}

// ---------------------------------------------------------------------------------------------
// C05: caller, address, block, funds

fn block_starts(ctx: &Ctx, world: &mut World, genesis: &StartState) -> Vec<StartState> {
    let mut v = vec![genesis.clone()];
    v.push(advance_block(world, genesis, "after-update_block"));
    // set_block with changed height, time and chain id; and with the SAME height but another time and
    // chain id. The block contracts must be told is the block that was set (not whatever the App
    // says its block is), so the start states carry the former.
    for (name, nb) in [
        ("after-set_block", BlockInfo { height: 777, time: Timestamp::from_nanos(genesis.block.time.nanos() + 123_456_789_000), chain_id: "other-chain".into() }),
        ("after-set_block-at-the-same-height", BlockInfo { height: genesis.block.height, time: Timestamp::from_nanos(genesis.block.time.nanos() + 3_600_000_000_000), chain_id: "same-height-chain".into() }),
    ] {
        world.app.set_block(genesis.block.clone());
        *world.app.storage_mut() = genesis.storage.clone();
        world.app.set_block(nb.clone());
        if world.app.block_info() != nb {
            ctx.violation("c05:EntryCtx:set_block-not-adopted", json!({"engine": "tree", "what": "the block given to set_block is not the App's current block afterwards", "set": format!("{:?}", nb), "current": format!("{:?}", world.app.block_info())}));
        }
        v.push(StartState { name: name.into(), storage: world.app.storage().clone(), block: nb, mstate: genesis.mstate.clone() });
    }
    v
}

pub fn run_c05(ctx: &Ctx) -> i32 {
    let homes = |k: Kind| matches!(k, Kind::EntryCtx | Kind::EntryBalance | Kind::EntryPresence | Kind::Panic);
    let sampler = Sampler::new(4, ctx.seed);
    let mut st = TreeStats::default();
    let starts = build_starts(ctx, &homes, &mut st);
    let blocks = with_world(false, |w| block_starts(ctx, w, &starts.genesis));
    let (funds_hi, core_hi, rich_hi) = ctx.tier.pick((3, 5, 3), (4, 6, 4));
    st = st.merge(drive(ctx, &Funds::new(1, funds_hi), &[starts.genesis.clone()], false, &homes, &sampler));
    st = st.merge(drive(ctx, &Funds::new(1, funds_hi - 1), &blocks[1..], false, &homes, &sampler));
    st = st.merge(drive(
        ctx,
        &Core::with_entries(1, core_hi, vec!["execute", "execute-funded", "instantiate", "migrate", "wasm-sudo", "execute-by-poor"]),
        &blocks,
        false,
        &homes,
        &sampler,
    ));
    st = st.merge(drive(ctx, &Rich::new(1, rich_hi, vec!["execute", "execute-funded"]), &starts.fixed[..ctx.tier.pick(2, starts.fixed.len())], false, &homes, &sampler));
    finish(
        ctx,
        &st,
        blocks.len() + starts.fixed.len(),
        &sampler,
        json!({"funds_family_size_max": funds_hi, "funds_choices": ["none", "1x", "1x+2y", "100x (more than anyone owns)", "1x+2x (one denomination twice)", "0x (no positive amount)", "0x+1y"], "core_size_max": core_hi, "blocks": blocks.iter().map(|b| format!("{} h={} t={} chain={}", b.name, b.block.height, b.block.time.nanos(), b.block.chain_id)).collect::<Vec<_>>()}),
        vec![],
        vec![],
        json!({}),
    )
}

// ---------------------------------------------------------------------------------------------
// C10: queries

/// Every query kind through App in the given state, each issued twice: same answer, zero raw
/// writes, storage byte-identical, answers equal the model state.
fn app_query_purity(ctx: &Ctx, world: &mut World, s: &StartState) -> u64 {
    world.app.set_block(s.block.clone());
    *world.app.storage_mut() = s.storage.clone();
    let before = world.app.storage().data.clone();
    let w0 = snap_writes();
    let mut n = 0u64;
    let principals = world.info.watch.all_principals.clone();
    let mut reqs: Vec<(String, QueryRequest<Empty>)> = vec![];
    use cosmwasm_std::{BankQuery, StakingQuery, WasmQuery};
    for p in principals.iter().chain([&"staking_module".to_string(), &"not an address".to_string()]) {
        #[allow(deprecated)]
        reqs.push((format!("AllBalances({})", p), BankQuery::AllBalances { address: p.clone() }.into()));
        for d in DENOMS {
            reqs.push((format!("Balance({},{})", p, d), BankQuery::Balance { address: p.clone(), denom: d.into() }.into()));
        }
        reqs.push((format!("Smart({})", p), WasmQuery::Smart { contract_addr: p.clone(), msg: b"{}".to_vec().into() }.into()));
        for k in [&b"pre"[..], b"m0", b"", b"nope"] {
            reqs.push((format!("Raw({},{})", p, show(k)), WasmQuery::Raw { contract_addr: p.clone(), key: k.to_vec().into() }.into()));
        }
        reqs.push((format!("ContractInfo({})", p), WasmQuery::ContractInfo { contract_addr: p.clone() }.into()));
        reqs.push((format!("AllDelegations({})", p), StakingQuery::AllDelegations { delegator: p.clone() }.into()));
        for v in [VALIDATOR, "nobody"] {
            reqs.push((format!("Delegation({},{})", p, v), StakingQuery::Delegation { delegator: p.clone(), validator: v.into() }.into()));
        }
    }
    for d in DENOMS.iter().chain(&["zzz"]) {
        reqs.push((format!("Supply({})", d), BankQuery::Supply { denom: d.to_string() }.into()));
        reqs.push((format!("DenomMetadata({})", d), BankQuery::DenomMetadata { denom: d.to_string() }.into()));
    }
    for c in 0..4u64 {
        reqs.push((format!("CodeInfo({})", c), WasmQuery::CodeInfo { code_id: c }.into()));
    }
    reqs.push(("BondedDenom".into(), StakingQuery::BondedDenom {}.into()));
    reqs.push(("AllValidators".into(), StakingQuery::AllValidators {}.into()));
    reqs.push(("Validator".into(), StakingQuery::Validator { address: VALIDATOR.into() }.into()));
    reqs.push(("Custom".into(), QueryRequest::Custom(Empty {})));
    for (name, rq) in &reqs {
        n += 1;
        let bytes = cosmwasm_std::to_json_vec(rq).unwrap();
        let r1 = catch(|| cosmwasm_std::Querier::raw_query(&world.app, &bytes));
        let r2 = catch(|| cosmwasm_std::Querier::raw_query(&world.app, &bytes));
        let d1 = r1.as_ref().map(|r| format!("{:?}", r)).map_err(|e| e.clone());
        let d2 = r2.as_ref().map(|r| format!("{:?}", r)).map_err(|e| e.clone());
        if d1 != d2 {
            ctx.violation("c10:same-query-different-answer", json!({"start": s.name, "query": name, "first": format!("{:?}", d1), "second": format!("{:?}", d2)}));
        }
        if r1.is_err() {
            ctx.violation("c10:query-panic", json!({"start": s.name, "query": name, "panic": r1.err()}));
        }
        if snap_writes() != w0 {
            ctx.violation("c10:query-wrote-to-storage", json!({"start": s.name, "query": name, "raw_writes": snap_writes() - w0}));
            break;
        }
    }
    // garbage request bytes
    for g in [&b""[..], b"{}", b"garbage", b"{\"bank\":{}}"] {
        n += 1;
        if catch(|| cosmwasm_std::Querier::raw_query(&world.app, g)).is_err() {
            ctx.violation("c10:query-panic", json!({"start": s.name, "query": show(g)}));
        }
    }
    if world.app.storage().data != before {
        ctx.violation("c10:query-changed-storage", json!({"start": s.name}));
    }
    // answers equal the committed (model) state
    let obs = world.observe_uncached();
    let want = observable(&s.mstate, &world.info.staking_module);
    n += 1;
    if obs != want {
        ctx.violation("c10:app-query-not-committed-state", json!({"start": s.name, "observed": format!("{:?}", obs), "model": format!("{:?}", want)}));
    }
    let _ = take_trace();
    n
}

pub fn run_c10(ctx: &Ctx) -> i32 {
    let homes = |k: Kind| matches!(k, Kind::EntryQuery | Kind::EntryStore | Kind::EntryBalance | Kind::Panic);
    let sampler = Sampler::new(4, ctx.seed);
    let mut st = TreeStats::default();
    let starts = build_starts(ctx, &homes, &mut st);
    let all = all_starts(&starts);
    let (core_hi, ext_hi, rich_hi, reach_depth) = ctx.tier.pick((6, 5, 3, 1), (7, 6, 4, 2));
    // (a) inside trees: basic bundle on the large family, extended bundle (every query kind) on smaller ones
    st = st.merge(drive(ctx, &Core::new(1, core_hi), &[starts.genesis.clone()], false, &homes, &sampler));
    st = st.merge(drive(ctx, &Core::with_entries(1, ext_hi, vec!["execute", "execute-funded"]), &[starts.genesis.clone()], true, &homes, &sampler));
    st = st.merge(drive(ctx, &Rich::new(1, rich_hi, vec!["execute", "instantiate"]), &all[..ctx.tier.pick(2, all.len())], true, &homes, &sampler));
    st = st.merge(drive(ctx, &Funds::new(1, ctx.tier.pick(3, 4)), &[starts.genesis.clone()], true, &homes, &sampler));
    // (a') several messages in one transaction (execute_multi): what a later message's queries
    // observe includes everything the earlier messages did (extended bundle)
    let (r, multi_n, multi_seqs) = multi_stage(ctx, &starts.genesis, &homes, &sampler, 2, true);
    st = st.merge(r);
    *st.per_family.entry(format!("execute_multi: sequences of 1..=3 messages over {} single messages", multi_n)).or_default() += multi_seqs as u64;
    // (b) through App: in every reachable state, every query kind twice
    let reach = reachable_starts(ctx, &starts.genesis, reach_depth, &homes, &mut st);
    let mut qstates: Vec<StartState> = all.clone();
    qstates.extend(reach.iter().cloned());
    let nq: u64 = qstates
        .par_chunks(8)
        .map(|ch| with_world(false, |world| ch.iter().map(|s| app_query_purity(ctx, world, s)).sum::<u64>()))
        .sum();
    finish(
        ctx,
        &st,
        qstates.len(),
        &sampler,
        json!({"core_size_max_basic_bundle": core_hi, "core_size_max_extended_bundle": ext_hi, "rich_size_max": rich_hi, "app_query_states": qstates.len()}),
        vec![],
        vec!["whether a contract's own uncommitted writes are visible to its own queries is not asserted (queries are issued at entry, before the node's writes)".into()],
        json!({"app_level_queries_issued_twice_and_compared": nq, "query_bundle": "at every entry: AllBalances(self, rich), smart dump of the other ring contracts (storage + their balance), own storage range; extended: Raw, ContractInfo, CodeInfo, Delegation, Custom, all principals' balances"}),
    )
}

// ---------------------------------------------------------------------------------------------
// C13: malformed responses

// (white space is what `char::is_whitespace` says: U+00A0, U+2003, U+0085 and the vertical tab U+000B
// count, so a key or type made of them is blank)
const C13_STRINGS: [&str; 38] = ["", " ", "\t\n", "_", "_a", " _a", "a_", "a", " a ", "__", "é", "_é", "ab", "a ", "-", "  ", "x", " x ", "éé", "a_b", " ab ", "\n_k",
    "\u{a0}", "\u{2003}_x", "\u{a0}e", "\u{b}x\u{b}", "\u{85}ab\u{2003}", "\u{3000}", "a\u{a0}b",
    // the one reserved key the simulator writes itself, and its neighbours
    "_contract_address", " _contract_address ", "_contract_addr",
    // event types that look like the prefix the simulator adds, or like a module's own event
    "wasm-x", "wasm-", "wasm", "transfer",
    // long enough for a refusal that quotes them to need shortening, with multi-byte characters at every
    // even byte offset (a reserved key, and an acceptable one)
    "_éééééééééééééééééééééééééééééééééééééééé",
    "xéééééééééééééééééééééééééééééééééééééééé"];
const C13_POS: [&str; 7] = ["attr-key", "attr-value", "event-attr-key", "event-attr-value", "event-type", "attr-key-with-empty-value", "event-attr-key-with-blank-value"];

fn c13_node(pos: usize, s: &str, idx: usize) -> Node {
    let mut nd = Node { writes: vec![WriteOp::Set(format!("m{}", idx).into_bytes(), b"1".to_vec()), WriteOp::Set(b"pre".to_vec(), b"touched".to_vec())], data: Some(b"dx".to_vec()), ..Default::default() };
    let (mut ak, mut av, mut ek, mut evv, mut ety) = ("k".to_string(), "v".to_string(), "ek".to_string(), "ev".to_string(), "evt".to_string());
    match pos {
        0 => ak = s.into(),
        1 => av = s.into(),
        2 => ek = s.into(),
        3 => evv = s.into(),
        4 => ety = s.into(),
        5 => {
            ak = s.into();
            av = String::new();
        }
        _ => {
            ek = s.into();
            evv = " ".into();
        }
    }
    nd.attrs = vec![("first".into(), "1".into()), (ak, av)];
    nd.events = vec![("lead".into(), vec![]), (ety, vec![("e0".into(), "".into()), (ek, evv)])];
    nd
}

/// Builds the program placing node X (the one with the tested string) as `kind` in `context`.
fn c13_program(ad: &Addrs, kind: &str, context: usize, pos: usize, s: &str) -> Option<(Program, usize)> {
    let plain = |idx: usize| {
        let mut n = Node::default();
        standard_node(idx, &mut n);
        n
    };
    let x_msg = |node: usize| -> Msg {
        match kind {
            "execute" => Msg::Call { target: Target::Other, funds: vec![("x".into(), 1)], node },
            "instantiate" => Msg::Instantiate { code: 1, funds: vec![("x".into(), 1)], label: "c13".into(), admin: None, node },
            "migrate" => Msg::Migrate { target: Target::Other, code: 2, node },
            _ => unreachable!(),
        }
    };
    let modes = Mode::ALL;
    match kind {
        "execute" | "instantiate" | "migrate" => {
            if context == 0 {
                let entry = match kind {
                    "execute" => Entry::Execute { sender: ad.rich.clone(), contract: ad.a.clone(), funds: vec![("x".into(), 2)] },
                    "instantiate" => entry_of("instantiate", ad),
                    _ => entry_of("migrate", ad),
                };
                return Some((Program { entry, root: 0, nodes: vec![c13_node(pos, s, 0)] }, 0));
            }
            let deep = context > 4;
            let mode = modes[(context - 1) % 4];
            if context > 8 {
                return None;
            }
            let mut nodes: Vec<Node> = vec![];
            let mut cur = 0usize;
            nodes.push(plain(0));
            if deep {
                nodes.push(plain(1));
                nodes[0].subs.push(Sub { id: 100, payload: vec![], reply_on: Mode::Never, msg: Msg::Call { target: Target::SelfC, funds: vec![], node: 1 }, reply: None });
                cur = 1;
            }
            let xi = nodes.len();
            nodes.push(c13_node(pos, s, xi));
            let reply = if mode == Mode::Never {
                None
            } else {
                let ri = nodes.len();
                nodes.push(plain(ri));
                Some(ri)
            };
            nodes[cur].subs.push(Sub { id: 101, payload: b"p".to_vec(), reply_on: mode, msg: x_msg(xi), reply });
            // a later sibling shows whether the parent continued
            nodes[cur].subs.push(Sub { id: 102, payload: vec![], reply_on: Mode::Never, msg: Msg::BankSend { to: Target::Addr(ad.poor.clone()), coins: vec![("y".into(), 1)] }, reply: None });
            Some((Program { entry: Entry::Execute { sender: ad.rich.clone(), contract: ad.a.clone(), funds: vec![] }, root: 0, nodes }, xi))
        }
        "sudo" => {
            if context > 1 {
                return None;
            }
            let entry = if context == 0 { Entry::WasmSudo { contract: ad.a.clone() } } else { Entry::SudoWasm { contract: ad.b.clone() } };
            Some((Program { entry, root: 0, nodes: vec![c13_node(pos, s, 0)] }, 0))
        }
        "reply" => {
            // X is the reply handler: contexts 0..4 depth 1, 4..8 depth 2; within: (child ok, Success), (child ok, Always), (child fails, Error), (child fails, Always)
            if context > 7 {
                return None;
            }
            let deep = context >= 4;
            let (child_fails, mode) = [(false, Mode::Success), (false, Mode::Always), (true, Mode::Error), (true, Mode::Always)][context % 4];
            let mut nodes: Vec<Node> = vec![plain(0)];
            let mut cur = 0usize;
            if deep {
                nodes.push(plain(1));
                // the outer call is caught by the root so that an invalid reply response deep down is absorbed one level up
                nodes.push(plain(2));
                nodes[0].subs.push(Sub { id: 100, payload: vec![], reply_on: Mode::Always, msg: Msg::Call { target: Target::Other, funds: vec![("y".into(), 1)], node: 1 }, reply: Some(2) });
                cur = 1;
            }
            let ci = nodes.len();
            let mut child = plain(ci);
            child.fail = child_fails;
            nodes.push(child);
            let xi = nodes.len();
            nodes.push(c13_node(pos, s, xi));
            nodes[cur].subs.push(Sub { id: 101, payload: b"p".to_vec(), reply_on: mode, msg: Msg::Call { target: Target::Other, funds: vec![("x".into(), 1)], node: ci }, reply: Some(xi) });
            nodes[cur].subs.push(Sub { id: 102, payload: vec![], reply_on: Mode::Never, msg: Msg::BankSend { to: Target::Addr(ad.poor.clone()), coins: vec![("y".into(), 1)] }, reply: None });
            Some((Program { entry: Entry::Execute { sender: ad.rich.clone(), contract: ad.a.clone(), funds: vec![] }, root: 0, nodes }, xi))
        }
        _ => None,
    }
}

fn diff_keys(a: &std::collections::BTreeMap<Vec<u8>, Vec<u8>>, b: &std::collections::BTreeMap<Vec<u8>, Vec<u8>>) -> Vec<String> {
    let mut out = vec![];
    for k in a.keys().chain(b.keys()) {
        if a.get(k) != b.get(k) {
            let s = String::from_utf8_lossy(k).into_owned();
            if !out.contains(&s) {
                out.push(s);
            }
        }
    }
    out.truncate(8);
    out
}

/// Differential verdict for one C13 case: the real run must agree with the model that decides
/// the validity of node X's response correctly; if it agrees instead with the model that decides
/// it the wrong way round, the predicate is violated; if it agrees with neither, the divergence
/// belongs to another property (except changed strings in emitted events, checked directly).
#[allow(clippy::too_many_arguments)]
fn c13_one(ctx: &Ctx, world: &mut World, fam: &str, start: &StartState, p: &Program, xi: usize, pos: &str, st: &mut TreeStats) {
    let prog = std::rc::Rc::new(p.clone());
    let real = world.run_real(start, &prog);
    let good = world.run_model_flip(start, &prog, None);
    st.programs += 1;
    st.invocations += real.trace.len() as u64;
    if real.result.is_ok() { st.ok += 1 } else { st.err += 1 }
    if good.trace.iter().any(|r| r.reply.is_some()) { st.with_reply += 1 }
    if good.trace.iter().any(|r| r.reply.as_ref().map_or(false, |x| !x.ok)) { st.with_caught_failure += 1 }
    st.final_states.insert(hash64(&real.final_storage.data, 11));
    let case = |extra: Value| json!({"engine": "tree", "family": fam, "start": start.name, "tested_node": xi, "program": program_json(p), "divergence": extra});
    if let Some(pn) = &real.panicked {
        ctx.violation("c13:Panic", case(json!({"panic": pn})));
        return;
    }
    let d1 = super::cmp::compare(world, &start.mstate, p, &real, &good);
    if d1.is_empty() {
        return;
    }
    let bad = world.run_model_flip(start, &prog, Some(xi));
    let d2 = super::cmp::compare(world, &start.mstate, p, &real, &bad);
    let x = &p.nodes[xi];
    let x_invalid = super::model::invalid_response(x);
    if d2.is_empty() {
        *st.home.entry("validity-decided-wrongly".into()).or_default() += 1;
        ctx.violation(
            &format!("c13:{}-response-{}:{}", if x_invalid { "malformed" } else { "well-formed" }, if x_invalid { "accepted" } else { "rejected" }, pos),
            case(json!({"expected": if x_invalid { "call fails like any contract error" } else { "accepted" }, "first_divergence_from_correct_model": format!("{:?}", d1[0].kind), "detail": d1[0].detail})),
        );
        return;
    }
    // neither model matches. A malformed response must be handled with the same rollback as any other
    // contract error: the run is compared with the real run of the same program in which X performs
    // the same writes and then returns an ordinary error (a differential between two real runs, so
    // whatever the code does on errors in general - other properties' business - cancels out)
    if x_invalid {
        let mut q = p.clone();
        q.nodes[xi].fail = true;
        let real_err = world.run_real(start, &std::rc::Rc::new(q));
        let same = real.result.is_ok() == real_err.result.is_ok() && real.final_storage.data == real_err.final_storage.data && real.trace == real_err.trace;
        if !same && real_err.panicked.is_none() {
            *st.home.entry("malformed-response-not-handled-like-an-error".into()).or_default() += 1;
            let what = if real.result.is_ok() != real_err.result.is_ok() {
                "outcome differs"
            } else if real.final_storage.data != real_err.final_storage.data {
                "final chain state differs"
            } else {
                "entry points invoked afterwards (or what they saw) differ"
            };
            ctx.violation(
                &format!("c13:malformed-response-not-handled-like-an-error:{}", pos),
                case(json!({"expected": "same outcome, final state and later invocations as when the node returns an ordinary error after the same writes", "what": what,
                    "outcome_with_malformed_response": real.result.is_ok(), "outcome_with_ordinary_error": real_err.result.is_ok(),
                    "keys_differing": diff_keys(&real.final_storage.data, &real_err.final_storage.data)})),
            );
            return;
        }
    }
    // if X's strings should surface in the top-level response, they must be there unchanged
    if !x_invalid {
        if let (Ok((rev, _)), Ok(m)) = (&real.result, &good.result) {
            let (ety, eattrs) = &x.events[1];
            let want_ty = format!("wasm-{}", ety);
            let model_has = m.events.iter().any(|e| e.ty == want_ty);
            let real_has = rev.iter().any(|e| e.ty == want_ty && eattrs.iter().all(|a| e.attrs.contains(a)));
            let (ak, av) = &x.attrs[1];
            let model_has_attr = m.events.iter().any(|e| e.ty == "wasm" && e.attrs.contains(&(ak.clone(), av.clone())));
            let real_has_attr = rev.iter().any(|e| e.ty == "wasm" && e.attrs.contains(&(ak.clone(), av.clone())));
            if (model_has && !real_has) || (model_has_attr && !real_has_attr) {
                *st.home.entry("emitted-strings-changed".into()).or_default() += 1;
                ctx.violation(&format!("c13:emitted-strings-changed:{}", pos), case(json!({"real_events": rev, "model_events": m.events})));
                return;
            }
        }
    }
    for d in d1 {
        *st.foreign.entry(format!("{:?}", d.kind)).or_default() += 1;
    }
}

/// quick: the hand-picked boundary strings; thorough: those plus every string of up to three
/// characters over {space, newline, underscore, 'a', 'é'}
fn c13_strings(tier: Tier) -> Vec<String> {
    let mut v: Vec<String> = C13_STRINGS.iter().map(|s| s.to_string()).collect();
    if tier == Tier::Thorough {
        let alpha = [' ', '\n', '_', 'a', 'é'];
        let mut layer: Vec<String> = vec![String::new()];
        for _ in 0..3 {
            let mut next = vec![];
            for w in &layer {
                for c in alpha {
                    let mut x = w.clone();
                    x.push(c);
                    next.push(x);
                }
            }
            for x in &next {
                if !v.contains(x) {
                    v.push(x.clone());
                }
            }
            layer = next;
        }
    }
    v
}

pub fn run_c13(ctx: &Ctx) -> i32 {
    let strings = c13_strings(ctx.tier);
    let homes = |k: Kind| matches!(k, Kind::Panic);
    let sampler = Sampler::new(4, ctx.seed);
    let mut st = TreeStats::default();
    let starts = build_starts(ctx, &homes, &mut st);
    let all = all_starts(&starts);
    let use_starts: Vec<StartState> = all[..ctx.tier.pick(2, all.len())].to_vec();
    let mut cases: Vec<(String, usize, usize, usize)> = vec![];
    for kind in ["execute", "instantiate", "migrate", "sudo", "reply"] {
        for context in 0..9 {
            for pos in 0..C13_POS.len() {
                for si in 0..strings.len() {
                    cases.push((kind.to_string(), context, pos, si));
                }
            }
        }
    }
    let mut invalid = 0u64;
    let mut valid = 0u64;
    for (_, _, pos, si) in &cases {
        let nd = c13_node(*pos, &strings[*si], 0);
        if super::model::invalid_response(&nd) {
            invalid += 1;
        } else {
            valid += 1;
        }
    }
    let r = cases
        .par_chunks(64)
        .map(|ch| {
            let mut lst = TreeStats::default();
            with_world(false, |world| {
                let ad = Addrs::of(world);
                for (kind, context, pos, si) in ch {
                    let Some((p, xi)) = c13_program(&ad, kind, *context, *pos, &strings[*si]) else { continue };
                    for s in &use_starts {
                        let fam = format!("c13:{}:ctx{}:{}", kind, context, C13_POS[*pos]);
                        sampler.offer(hash64(&(kind, context, pos, si), 3), || json!({"entry_point": kind, "context": context, "position": C13_POS[*pos], "string": strings[*si], "program": program_json(&p)}));
                        c13_one(ctx, world, &fam, s, &p, xi, C13_POS[*pos], &mut lst);
                    }
                }
            });
            lst
        })
        .reduce(TreeStats::default, TreeStats::merge);
    st = st.merge(r);
    // the tree families with standard strings keep exercising validation on every node
    st = st.merge(drive(ctx, &Core::new(1, ctx.tier.pick(4, 6)), &[starts.genesis.clone()], false, &homes, &sampler));
    finish(
        ctx,
        &st,
        use_starts.len(),
        &sampler,
        json!({"strings": strings.len(), "hand_picked_strings": C13_STRINGS.to_vec(), "generated_strings": if ctx.tier == Tier::Thorough { "every string of 1..=3 characters over {space, newline, underscore, a, é}" } else { "none (thorough tier only)" }, "positions": C13_POS, "entry_points": ["execute", "instantiate", "migrate", "sudo", "reply"], "contexts": "top level; sub-message under each reply_on; two levels deep under each reply_on; reply handler of ok/failed child under Success/Always/Error, one and two levels deep",
               "cases_with_invalid_string": invalid, "cases_with_valid_string": valid}),
        vec![],
        vec!["white space is taken as Unicode white space (char::is_whitespace), which is what trimming a Rust string means; the alphabet has ASCII and non-ASCII white space".into()],
        json!({}),
    )
}

// ---------------------------------------------------------------------------------------------
// C01: top-level atomicity

/// Concatenates single-root programs / leaf messages into one execute_multi program.
fn combine(sender: &str, parts: &[(Option<(String, Coins, Program)>, Option<Msg>)]) -> Program {
    let mut nodes: Vec<Node> = vec![];
    let mut msgs = vec![];
    for (i, (call, leaf)) in parts.iter().enumerate() {
        if let Some((contract, funds, p)) = call {
            let off = nodes.len();
            for nd in &p.nodes {
                let mut nd = nd.clone();
                for s in nd.subs.iter_mut() {
                    s.id += 1000 * (i as u64 + 1);
                    if let Some(r) = s.reply.as_mut() {
                        *r += off;
                    }
                    match &mut s.msg {
                        Msg::Call { node, .. } | Msg::Instantiate { node, .. } | Msg::Migrate { node, .. } => *node += off,
                        _ => {}
                    }
                }
                // markers must stay distinguishable between messages
                for w in nd.writes.iter_mut() {
                    if let WriteOp::Set(k, _) = w {
                        if k.starts_with(b"m") {
                            k.extend_from_slice(format!("@{}", i).as_bytes());
                        }
                    }
                }
                if let Some(d) = nd.data.as_mut() {
                    d.extend_from_slice(format!("@{}", i).as_bytes());
                }
                nodes.push(nd);
            }
            msgs.push(Msg::Call { target: Target::Addr(contract.clone()), funds: funds.clone(), node: p.root + off });
        } else if let Some(m) = leaf {
            msgs.push(m.clone());
        }
    }
    Program { entry: Entry::Multi { sender: sender.to_string(), msgs }, root: 0, nodes }
}

/// execute_multi: 1..=3 messages, each a call (all core programs up to multi_sz) to A or B, a
/// write / remove / read of one key, or a bank / staking leaf.
fn multi_stage(ctx: &Ctx, genesis: &StartState, multi_homes: &(dyn Fn(Kind) -> bool + Sync), sampler: &Sampler, multi_sz: usize, ext: bool) -> (TreeStats, usize, usize) {
    let multi_stats = with_world(false, |world| {
        let ad = Addrs::of(world);
        let core = Core::new(1, multi_sz);
        let mut alphabet: Vec<(Option<(String, Coins, Program)>, Option<Msg>)> = vec![];
        for i in 0..core.total() {
            let p = core.program(i, &ad);
            alphabet.push((Some((ad.a.clone(), vec![], p.clone())), None));
            if i % 3 == 0 {
                alphabet.push((Some((ad.b.clone(), vec![("x".into(), 1)], p)), None));
            }
        }
        // one key removed, written again, removed-and-written in one call, and just looked at:
        // every message sees exactly what its predecessors left (also after a delete)
        for writes in [vec![WriteOp::Remove(b"wk".to_vec())], vec![WriteOp::Set(b"wk".to_vec(), b"again".to_vec())], vec![WriteOp::Set(b"wk".to_vec(), b"1".to_vec()), WriteOp::Remove(b"wk".to_vec())], vec![]] {
            let p = Program { entry: Entry::Execute { sender: ad.rich.clone(), contract: ad.a.clone(), funds: vec![] }, root: 0, nodes: vec![Node { writes, ..Default::default() }] };
            alphabet.push((Some((ad.a.clone(), vec![], p)), None));
        }
        alphabet.push((None, Some(Msg::BankSend { to: Target::Addr(ad.poor.clone()), coins: vec![("x".into(), 1)] })));
        alphabet.push((None, Some(Msg::BankSend { to: Target::Addr(ad.poor.clone()), coins: vec![("x".into(), 1000)] })));
        alphabet.push((None, Some(Msg::Delegate { validator: VALIDATOR.into(), denom: "TOKEN".into(), amount: 2 })));
        alphabet
    });
    let n = multi_stats.len();
    let max_msgs = if n > 60 { 2 } else { 3 };
    let mut seqs: Vec<Vec<usize>> = vec![];
    for a in 0..n {
        seqs.push(vec![a]);
        for b in 0..n {
            seqs.push(vec![a, b]);
            if max_msgs == 3 {
                for c in 0..n {
                    seqs.push(vec![a, b, c]);
                }
            }
        }
    }
    if max_msgs == 2 {
        // three messages over the small alphabet (calls of size <= 2 and the leaves)
        let small: Vec<usize> = (0..n).filter(|i| multi_stats[*i].0.as_ref().map_or(true, |(_, _, p)| p.nodes.len() <= 1)).collect();
        for a in &small {
            for b in &small {
                for c in &small {
                    seqs.push(vec![*a, *b, *c]);
                }
            }
        }
    }
    let nseq = seqs.len();
    let r = seqs
        .par_chunks(128)
        .map(|ch| {
            let mut lst = TreeStats::default();
            with_world(ext, |world| {
                let rich = world.rich.clone();
                for sq in ch {
                    let parts: Vec<_> = sq.iter().map(|i| multi_stats[*i].clone()).collect();
                    let p = combine(&rich, &parts);
                    sampler.offer(hash64(sq, 31), || json!({"family": "execute_multi", "program": program_json(&p)}));
                    run_one(ctx, world, "execute_multi", genesis, p, multi_homes, &mut lst, ":multi");
                }
            });
            lst
        })
        .reduce(TreeStats::default, TreeStats::merge);
    (r, n, nseq)
}

pub fn run_c01(ctx: &Ctx) -> i32 {
    let homes = |k: Kind| matches!(k, Kind::StateOnErr | Kind::StateMissing | Kind::HelperReturn | Kind::MultiResponses | Kind::Panic);
    // execute_multi: order of execution and visibility of predecessors are part of C01
    let multi_homes = |k: Kind| homes(k) || matches!(k, Kind::EntryPresence | Kind::EntryStore | Kind::EntryQuery);
    let sampler = Sampler::new(4, ctx.seed);
    let mut st = TreeStats::default();
    let starts = build_starts(ctx, &homes, &mut st);
    let all = all_starts(&starts);
    let g = [starts.genesis.clone()];
    let (core_hi, entries_hi, rich_hi, reach_hi, reach_depth, multi_sz) = ctx.tier.pick((6, 4, 3, 3, 1, 2), (7, 6, 4, 4, 2, 3));
    // (a) programs x crash points through every entry point
    st = st.merge(drive(ctx, &Core::new(1, core_hi), &g, false, &homes, &sampler));
    let kinds = vec!["execute-funded", "execute-helper", "wasm-sudo", "sudo-wasm", "instantiate", "instantiate-helper", "migrate", "migrate-helper", "execute-by-poor"];
    st = st.merge(drive(ctx, &Core::with_entries(1, entries_hi, kinds.clone()), &all[..ctx.tier.pick(1, 3)], false, &homes, &sampler));
    st = st.merge(drive(ctx, &Rich::new(1, rich_hi, vec!["execute", "wasm-sudo", "instantiate"]), &all[..ctx.tier.pick(2, all.len())], false, &homes, &sampler));
    st = st.merge(drive(ctx, &Core::new(1, ctx.tier.pick(4, 5)), &starts.fixed, false, &homes, &sampler));
    // (b) histories
    let reach = reachable_starts(ctx, &starts.genesis, reach_depth, &homes, &mut st);
    st = st.merge(drive(ctx, &Core::with_entries(1, reach_hi, vec!["execute", "wasm-sudo"]), &reach, false, &homes, &sampler));
    // (c) execute_multi
    let (r, n, nseq) = multi_stage(ctx, &starts.genesis, &multi_homes, &sampler, multi_sz, false);
    st = st.merge(r);
    *st.per_family.entry(format!("execute_multi: sequences of 1..=3 messages over {} single messages", n)).or_default() += nseq as u64;
    // (d) sudo(Bank mint) and send_tokens helper
    with_world(false, |world| {
        let ad = Addrs::of(world);
        let mut ps = vec![];
        for to in [&ad.rich, &ad.poor, &ad.a] {
            for coins in [vec![("x".to_string(), 3u128)], vec![("x".into(), 0)], vec![], vec![("x".into(), 1), ("y".into(), 0), ("x".into(), 2)]] {
                ps.push(Program { entry: Entry::SudoMint { to: to.clone(), coins: coins.clone() }, root: 0, nodes: vec![] });
                ps.push(Program { entry: Entry::SendHelper { from: ad.rich.clone(), to: to.clone(), coins: coins.clone() }, root: 0, nodes: vec![] });
                ps.push(Program { entry: Entry::SendHelper { from: ad.poor.clone(), to: to.clone(), coins }, root: 0, nodes: vec![] });
            }
        }
        for s in &all {
            for p in &ps {
                run_one(ctx, world, "bank-sudo+send_tokens", s, p.clone(), &homes, &mut st, ":bank");
            }
        }
    });
    // (e) sudo(Staking): refused calls in every state of a small staking exploration
    let refused_staking_sudo = crate::staking::rejected_sudo_sweep(ctx, ctx.tier.pick(3, 4));
    let nstarts = all.len() + reach.len();
    finish(
        ctx,
        &st,
        nstarts,
        &sampler,
        json!({"core_size_max_execute": core_hi, "core_size_max_other_entry_points": entries_hi, "entry_points": kinds, "rich_size_max": rich_hi,
               "reachable_start_states": reach.len(), "multi_message_alphabet": n, "multi_sequences": nseq, "refused_staking_sudo_calls_checked_for_leftovers": refused_staking_sudo}),
        vec![],
        vec!["custom user modules with their own side state are outside".into()],
        json!({}),
    )
}

pub fn replay(ctx: &Ctx, case: &Value) {
    let prog: Program = serde_json::from_value(case["program"].clone()).unwrap_or_else(|e| machinery_error(&format!("bad program in replay: {}", e)));
    let start_name = case["start"].as_str().unwrap_or("genesis").to_string();
    let mut st = TreeStats::default();
    let starts = build_starts(ctx, &|_| true, &mut st);
    let mut all = all_starts(&starts);
    // (whether set_block adopts its block is C05's business: judged there, not here)
    let quiet_c05 = Ctx::new("C05", ctx.tier);
    all.extend(with_world(false, |w| block_starts(&quiet_c05, w, &starts.genesis)));
    let start = match all.iter().find(|s| s.name == start_name) {
        Some(s) => s.clone(),
        None => {
            // a reachable state: its name spells the path genesis+t<i>+t<j>
            let reach = reachable_starts(ctx, &starts.genesis, 2, &|_| true, &mut st);
            reach.into_iter().find(|s| s.name == start_name).unwrap_or_else(|| {
                println!("replay: unknown start state {}; replaying from genesis", start_name);
                starts.genesis.clone()
            })
        }
    };
    let _ = Addr::unchecked("x");
    with_world(case["family"].as_str().map_or(false, |f| f.contains("ext")) || case["ext"].as_bool().unwrap_or(false), |world| {
        run_one(ctx, world, "replay", &start, prog, &|_| true, &mut st, "");
    });
}
