//! Program families: how enumerated shapes become concrete programs.

use super::prog::*;
use super::world::World;

#[derive(Clone, Debug)]
pub struct Addrs {
    pub rich: String,
    pub poor: String,
    pub a: String,
    pub b: String,
    pub c: String,
}

impl Addrs {
    pub fn of(w: &World) -> Addrs {
        Addrs { rich: w.rich.clone(), poor: w.poor.clone(), a: w.a.clone(), b: w.b.clone(), c: w.c.clone() }
    }
}

/// Per-family interpretation of enumerated variant indices.
pub trait Family: Sync {
    fn name(&self) -> String;
    fn grammar(&self) -> &Grammar;
    fn sizes(&self) -> (usize, usize);
    /// number of entry variants (the program space is entries x shapes)
    fn entries(&self) -> u64;
    fn entry(&self, e: u64, ad: &Addrs) -> Entry;
    fn node(&self, variant: u64, idx: usize, nd: &mut Node);
    fn leaf(&self, l: u64, ad: &Addrs) -> Msg;
    fn call(&self, c: u64, child: usize, ad: &Addrs) -> Msg;

    fn total(&self) -> u128 {
        let (lo, hi) = self.sizes();
        (lo..=hi).map(|s| self.grammar().count(s)).sum::<u128>() * self.entries() as u128
    }

    /// idx in 0..total()
    fn program(&self, mut idx: u128, ad: &Addrs) -> Program {
        let e = (idx % self.entries() as u128) as u64;
        idx /= self.entries() as u128;
        let (lo, hi) = self.sizes();
        for s in lo..=hi {
            let c = self.grammar().count(s);
            if idx < c {
                let shape = self.grammar().unrank(s, idx);
                return self.build(e, &shape, ad);
            }
            idx -= c;
        }
        unreachable!()
    }

    fn build(&self, e: u64, shape: &ShapeNode, ad: &Addrs) -> Program {
        let mut nodes: Vec<Node> = vec![];
        // sub-message ids count up from 0 (zero is an id like any other)
        let mut next_id = 0u64;
        let root = self.build_node(shape, &mut nodes, &mut next_id, ad);
        Program { entry: self.entry(e, ad), root, nodes }
    }

    fn build_node(&self, sh: &ShapeNode, nodes: &mut Vec<Node>, next_id: &mut u64, ad: &Addrs) -> usize {
        let idx = nodes.len();
        let mut nd = Node::default();
        self.node(sh.variant, idx, &mut nd);
        nodes.push(nd);
        let mut subs = vec![];
        for s in &sh.subs {
            let id = *next_id;
            *next_id += 1;
            let msg = match &s.msg {
                ShapeMsg::Leaf(l) => self.leaf(*l, ad),
                ShapeMsg::Call(c, child) => {
                    let ci = self.build_node(child, nodes, next_id, ad);
                    self.call(*c, ci, ad)
                }
            };
            let reply = s.reply.as_ref().map(|r| self.build_node(r, nodes, next_id, ad));
            let payload = if id % 2 == 1 { vec![] } else { format!("p{}", id).into_bytes() };
            subs.push(Sub { id, payload, reply_on: s.mode, msg, reply });
        }
        nodes[idx].subs = subs;
        idx
    }
}

/// Standard per-node behaviour derived from the node index: a marker write, overwrite or
/// removal of the pre-existing key, one attribute, one custom event, unique data.
pub fn standard_node(idx: usize, nd: &mut Node) {
    nd.writes.push(WriteOp::Set(format!("m{}", idx).into_bytes(), b"1".to_vec()));
    if idx % 2 == 1 {
        nd.writes.push(WriteOp::Set(b"pre".to_vec(), format!("{}", idx).into_bytes()));
    }
    if idx % 3 == 2 {
        nd.writes.push(WriteOp::Remove(b"pre".to_vec()));
    }
    nd.attrs = vec![("n".into(), format!("{}", idx))];
    nd.events = vec![("ev".into(), vec![("n".into(), format!("{}", idx))])];
    nd.data = Some(format!("d{}", idx).into_bytes());
}

// ---------------------------------------------------------------------------------------------

/// Core control-flow family (C02, C03, C10 and the large-tree part of C01/C04/C05).
pub struct Core {
    pub g: Grammar,
    pub lo: usize,
    pub hi: usize,
    pub entry_kinds: Vec<&'static str>,
}

impl Core {
    pub fn new(lo: usize, hi: usize) -> Core {
        Core { g: Grammar::new(1, 1, 2, 2, hi), lo, hi, entry_kinds: vec!["execute"] }
    }
    pub fn with_entries(lo: usize, hi: usize, kinds: Vec<&'static str>) -> Core {
        Core { g: Grammar::new(1, 1, 2, 2, hi), lo, hi, entry_kinds: kinds }
    }
}

pub fn entry_of(kind: &str, ad: &Addrs) -> Entry {
    match kind {
        "execute" => Entry::Execute { sender: ad.rich.clone(), contract: ad.a.clone(), funds: vec![] },
        "execute-funded" => Entry::Execute { sender: ad.rich.clone(), contract: ad.b.clone(), funds: vec![("x".into(), 2)] },
        "execute-helper" => Entry::ExecuteHelper { sender: ad.rich.clone(), contract: ad.a.clone(), funds: vec![] },
        "wasm-sudo" => Entry::WasmSudo { contract: ad.a.clone() },
        "sudo-wasm" => Entry::SudoWasm { contract: ad.a.clone() },
        "instantiate" => Entry::Instantiate { sender: ad.rich.clone(), code: 1, funds: vec![("x".into(), 3)], label: "new".into(), admin: None },
        "instantiate-helper" => Entry::InstantiateHelper { sender: ad.rich.clone(), code: 2, funds: vec![], label: "new".into(), admin: Some(ad.rich.clone()) },
        "migrate" => Entry::Migrate { sender: ad.rich.clone(), contract: ad.a.clone(), code: 2 },
        "migrate-helper" => Entry::MigrateHelper { sender: ad.rich.clone(), contract: ad.a.clone(), code: 2 },
        "execute-by-poor" => Entry::Execute { sender: ad.poor.clone(), contract: ad.a.clone(), funds: vec![] },
        k => panic!("unknown entry kind {}", k),
    }
}

impl Family for Core {
    fn name(&self) -> String {
        format!("core[{}..{}]x{:?}", self.lo, self.hi, self.entry_kinds)
    }
    fn grammar(&self) -> &Grammar {
        &self.g
    }
    fn sizes(&self) -> (usize, usize) {
        (self.lo, self.hi)
    }
    fn entries(&self) -> u64 {
        self.entry_kinds.len() as u64
    }
    fn entry(&self, e: u64, ad: &Addrs) -> Entry {
        entry_of(self.entry_kinds[e as usize], ad)
    }
    fn node(&self, variant: u64, idx: usize, nd: &mut Node) {
        standard_node(idx, nd);
        nd.fail = variant == 1;
    }
    fn leaf(&self, l: u64, ad: &Addrs) -> Msg {
        match l {
            0 => Msg::BankSend { to: Target::Addr(ad.poor.clone()), coins: vec![("x".into(), 1)] },
            _ => Msg::BankSend { to: Target::Addr(ad.poor.clone()), coins: vec![("x".into(), 100)] },
        }
    }
    fn call(&self, c: u64, child: usize, _ad: &Addrs) -> Msg {
        match c {
            0 => Msg::Call { target: Target::SelfC, funds: vec![], node: child },
            _ => Msg::Call { target: Target::Other, funds: vec![], node: child },
        }
    }
}

/// Rich-message family: more leaf kinds (burn, delegate ok/zero/unknown validator, admin
/// changes) and call kinds (instantiate, migrate, funded calls), smaller trees.
pub struct Rich {
    pub g: Grammar,
    pub lo: usize,
    pub hi: usize,
    pub entry_kinds: Vec<&'static str>,
}

impl Rich {
    pub fn new(lo: usize, hi: usize, kinds: Vec<&'static str>) -> Rich {
        Rich { g: Grammar::new(1, 1, 9, 8, hi), lo, hi, entry_kinds: kinds }
    }
}

impl Family for Rich {
    fn name(&self) -> String {
        format!("rich[{}..{}]x{:?}", self.lo, self.hi, self.entry_kinds)
    }
    fn grammar(&self) -> &Grammar {
        &self.g
    }
    fn sizes(&self) -> (usize, usize) {
        (self.lo, self.hi)
    }
    fn entries(&self) -> u64 {
        self.entry_kinds.len() as u64
    }
    fn entry(&self, e: u64, ad: &Addrs) -> Entry {
        entry_of(self.entry_kinds[e as usize], ad)
    }
    fn node(&self, variant: u64, idx: usize, nd: &mut Node) {
        standard_node(idx, nd);
        nd.fail = variant == 1;
    }
    fn leaf(&self, l: u64, ad: &Addrs) -> Msg {
        match l {
            0 => Msg::BankSend { to: Target::Addr(ad.poor.clone()), coins: vec![("x".into(), 1)] },
            1 => Msg::BankSend { to: Target::Other, coins: vec![("x".into(), 1), ("y".into(), 1)] },
            2 => Msg::BankBurn { coins: vec![("x".into(), 1)] },
            3 => Msg::Delegate { validator: super::world::VALIDATOR.into(), denom: "TOKEN".into(), amount: 1 },
            4 => Msg::Delegate { validator: super::world::VALIDATOR.into(), denom: "TOKEN".into(), amount: 0 },
            5 => Msg::Delegate { validator: "nobody".into(), denom: "TOKEN".into(), amount: 1 },
            6 => Msg::UpdateAdmin { target: Target::Other, admin: ad.poor.clone() },
            7 => Msg::ClearAdmin { target: Target::Other },
            // fails only after the staking module has recorded the stake (the bank transfer fails)
            _ => Msg::Delegate { validator: super::world::VALIDATOR.into(), denom: "TOKEN".into(), amount: 100 },
        }
    }
    fn call(&self, c: u64, child: usize, _ad: &Addrs) -> Msg {
        match c {
            0 => Msg::Call { target: Target::SelfC, funds: vec![], node: child },
            1 => Msg::Call { target: Target::Other, funds: vec![("x".into(), 1)], node: child },
            2 => Msg::Call { target: Target::Other, funds: vec![("x".into(), 100)], node: child },
            3 => Msg::Instantiate { code: 1, funds: vec![], label: "sub".into(), admin: None, node: child },
            4 => Msg::Instantiate { code: 2, funds: vec![("x".into(), 1)], label: "sub2".into(), admin: Some("anyone".into()), node: child },
            5 => Msg::Instantiate { code: 3, funds: vec![], label: "nocode".into(), admin: None, node: child },
            // an instantiation without label: a sub-message that fails when it is dispatched
            6 => Msg::Instantiate { code: 1, funds: vec![], label: String::new(), admin: None, node: child },
            _ => Msg::Migrate { target: Target::Other, code: 2, node: child },
        }
    }
}

/// Data/event-focused family (C04): per node fail x data{absent,empty,unique} x attrs x event.
pub struct DataEv {
    pub g: Grammar,
    pub lo: usize,
    pub hi: usize,
    pub entry_kinds: Vec<&'static str>,
}

impl DataEv {
    pub fn new(lo: usize, hi: usize, kinds: Vec<&'static str>) -> DataEv {
        DataEv { g: Grammar::new(12, 12, 2, 3, hi), lo, hi, entry_kinds: kinds }
    }
}

impl Family for DataEv {
    fn name(&self) -> String {
        format!("data-event[{}..{}]x{:?}", self.lo, self.hi, self.entry_kinds)
    }
    fn grammar(&self) -> &Grammar {
        &self.g
    }
    fn sizes(&self) -> (usize, usize) {
        (self.lo, self.hi)
    }
    fn entries(&self) -> u64 {
        self.entry_kinds.len() as u64
    }
    fn entry(&self, e: u64, ad: &Addrs) -> Entry {
        entry_of(self.entry_kinds[e as usize], ad)
    }
    fn node(&self, variant: u64, idx: usize, nd: &mut Node) {
        let mut v = variant % 12;
        nd.fail = variant >= 12;
        nd.data = match v % 3 {
            0 => None,
            1 => Some(vec![]),
            _ => Some(format!("d{}", idx).into_bytes()),
        };
        v /= 3;
        if v % 2 == 1 {
            nd.attrs = vec![("n".into(), format!("{}", idx)), ("empty".into(), "".into())];
            // in these variants the unique data has the shape of an already encoded
            // execute-response (field 1, length, payload): data is opaque bytes, wrapped like any other
            if let Some(d) = nd.data.as_mut() {
                if !d.is_empty() {
                    let mut enc = vec![0x0a, d.len() as u8];
                    enc.extend_from_slice(d);
                    *d = enc;
                }
            }
        }
        v /= 2;
        if v % 2 == 1 {
            // attribute keys in an order no sorting would produce ('Z' < '_contract_address' < 'a' < 'n')
            nd.events = vec![("ev".into(), vec![("n".into(), format!("{}", idx)), ("Z".into(), "z".into()), ("a".into(), "".into())]), (format!("e{}", idx), vec![]), ("wasm-x".into(), vec![("k".into(), "v".into())])];
        }
        nd.writes.push(WriteOp::Set(format!("m{}", idx).into_bytes(), b"1".to_vec()));
    }
    fn leaf(&self, l: u64, ad: &Addrs) -> Msg {
        match l {
            0 => Msg::BankSend { to: Target::Addr(ad.poor.clone()), coins: vec![("x".into(), 1)] },
            _ => Msg::BankBurn { coins: vec![("y".into(), 1)] },
        }
    }
    fn call(&self, c: u64, child: usize, _ad: &Addrs) -> Msg {
        match c {
            0 => Msg::Call { target: Target::SelfC, funds: vec![], node: child },
            1 => Msg::Call { target: Target::Other, funds: vec![], node: child },
            _ => Msg::Instantiate { code: 1, funds: vec![], label: "sub".into(), admin: None, node: child },
        }
    }
}

/// Funds-focused family (C05): every call carries one of four funds choices, and so does the entry.
pub struct Funds {
    pub g: Grammar,
    pub lo: usize,
    pub hi: usize,
    pub entry_kinds: Vec<(&'static str, usize)>,
}

pub fn funds_choice(f: usize) -> Coins {
    match f {
        0 => vec![],
        1 => vec![("x".into(), 1)],
        2 => vec![("x".into(), 1), ("y".into(), 2)],
        3 => vec![("x".into(), 100)],
        // one denomination named twice (the amounts add up), all-zero funds (no positive amount: the
        // transfer and with it the call fails), a zero amount next to a positive one
        4 => vec![("x".into(), 1), ("x".into(), 2)],
        5 => vec![("x".into(), 0)],
        _ => vec![("x".into(), 0), ("y".into(), 1)],
    }
}

impl Funds {
    pub fn new(lo: usize, hi: usize) -> Funds {
        let mut kinds = vec![];
        for k in ["execute", "instantiate"] {
            for f in 0..7 {
                kinds.push((k, f));
            }
        }
        kinds.push(("execute-by-poor", 1));
        kinds.push(("wasm-sudo", 0));
        kinds.push(("migrate", 0));
        Funds { g: Grammar::new(1, 1, 1, 18, hi), lo, hi, entry_kinds: kinds }
    }
}

impl Family for Funds {
    fn name(&self) -> String {
        format!("funds[{}..{}]x{}entries", self.lo, self.hi, self.entry_kinds.len())
    }
    fn grammar(&self) -> &Grammar {
        &self.g
    }
    fn sizes(&self) -> (usize, usize) {
        (self.lo, self.hi)
    }
    fn entries(&self) -> u64 {
        self.entry_kinds.len() as u64
    }
    fn entry(&self, e: u64, ad: &Addrs) -> Entry {
        let (k, f) = self.entry_kinds[e as usize];
        match entry_of(k, ad) {
            Entry::Execute { sender, contract, .. } => Entry::Execute { sender, contract, funds: funds_choice(f) },
            Entry::Instantiate { sender, code, label, admin, .. } => Entry::Instantiate { sender, code, funds: funds_choice(f), label, admin },
            other => other,
        }
    }
    fn node(&self, variant: u64, idx: usize, nd: &mut Node) {
        standard_node(idx, nd);
        nd.fail = variant == 1;
    }
    fn leaf(&self, _l: u64, ad: &Addrs) -> Msg {
        Msg::BankSend { to: Target::Addr(ad.poor.clone()), coins: vec![("y".into(), 1)] }
    }
    fn call(&self, c: u64, child: usize, _ad: &Addrs) -> Msg {
        let c = c as usize;
        if c < 14 {
            let target = if c / 7 == 0 { Target::SelfC } else { Target::Other };
            Msg::Call { target, funds: funds_choice(c % 7), node: child }
        } else if c < 16 {
            Msg::Instantiate { code: 1, funds: funds_choice(if c == 14 { 1 } else { 4 }), label: "sub".into(), admin: None, node: child }
        } else {
            // the callee named by the upper-case spelling of its address (no contract lives at that
            // string: the call is refused and no coin moves), with and without funds
            Msg::Call { target: Target::Addr(_ad.b.to_uppercase()), funds: funds_choice(if c == 16 { 1 } else { 0 }), node: child }
        }
    }
}

/// Control-flow family with reply handlers whose failure depends on the result they are given:
/// failing variants are {always, iff the reply carries Ok, iff the reply carries Err, by a malformed response}.
pub struct Cond {
    pub g: Grammar,
    pub lo: usize,
    pub hi: usize,
}

impl Cond {
    pub fn new(lo: usize, hi: usize) -> Cond {
        Cond { g: Grammar::new(1, 4, 2, 2, hi), lo, hi }
    }
}

impl Family for Cond {
    fn name(&self) -> String {
        format!("conditional-reply[{}..{}]", self.lo, self.hi)
    }
    fn grammar(&self) -> &Grammar {
        &self.g
    }
    fn sizes(&self) -> (usize, usize) {
        (self.lo, self.hi)
    }
    fn entries(&self) -> u64 {
        1
    }
    fn entry(&self, _e: u64, ad: &Addrs) -> Entry {
        entry_of("execute", ad)
    }
    fn node(&self, variant: u64, idx: usize, nd: &mut Node) {
        standard_node(idx, nd);
        match variant {
            1 => nd.fail = true,
            2 => nd.fail_when = 1,
            3 => nd.fail_when = 2,
            // fails not by returning an error but by returning a response the chain rejects (an
            // attribute key with a leading underscore): a failure like any other
            4 => nd.attrs.push(("_reserved".into(), "x".into())),
            _ => {}
        }
    }
    fn leaf(&self, l: u64, ad: &Addrs) -> Msg {
        match l {
            0 => Msg::BankSend { to: Target::Addr(ad.poor.clone()), coins: vec![("x".into(), 1)] },
            _ => Msg::BankSend { to: Target::Addr(ad.poor.clone()), coins: vec![("x".into(), 100)] },
        }
    }
    fn call(&self, c: u64, child: usize, _ad: &Addrs) -> Msg {
        match c {
            0 => Msg::Call { target: Target::SelfC, funds: vec![("x".into(), 1)], node: child },
            _ => Msg::Call { target: Target::Other, funds: vec![], node: child },
        }
    }
}
