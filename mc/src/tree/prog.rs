//! Message-tree programs: representation, grammar counting and unranking.
//!
//! A program is an arena of behaviour nodes (`Node`); each node lists sub-messages; a
//! sub-message carries a message (leaf or a call with a child node) and, unless `reply_on` is
//! Never, a reply node. Families (see `families.rs`) decide how the enumerated per-node variant
//! and per-message variant indices are interpreted.

use serde::{Deserialize, Serialize};

/// (De)serialises byte strings readably: UTF-8 text as is, anything else as 0x-prefixed hex.
pub mod bstr {
    use serde::{Deserialize, Deserializer, Serializer};
    pub fn enc(v: &[u8]) -> String {
        match std::str::from_utf8(v) {
            Ok(s) if !s.starts_with("0x") && s.chars().all(|c| !c.is_control()) => s.to_string(),
            _ => format!("0x{}", v.iter().map(|b| format!("{:02x}", b)).collect::<String>()),
        }
    }
    pub fn dec(s: &str) -> Vec<u8> {
        if let Some(h) = s.strip_prefix("0x") {
            (0..h.len() / 2).map(|i| u8::from_str_radix(&h[2 * i..2 * i + 2], 16).unwrap()).collect()
        } else {
            s.as_bytes().to_vec()
        }
    }
    pub fn serialize<S: Serializer>(v: &Vec<u8>, s: S) -> Result<S::Ok, S::Error> {
        s.serialize_str(&enc(v))
    }
    pub fn deserialize<'de, D: Deserializer<'de>>(d: D) -> Result<Vec<u8>, D::Error> {
        Ok(dec(&String::deserialize(d)?))
    }
    pub mod opt {
        use serde::{Deserialize, Deserializer, Serializer};
        pub fn serialize<S: Serializer>(v: &Option<Vec<u8>>, s: S) -> Result<S::Ok, S::Error> {
            match v {
                None => s.serialize_none(),
                Some(v) => s.serialize_some(&super::enc(v)),
            }
        }
        pub fn deserialize<'de, D: Deserializer<'de>>(d: D) -> Result<Option<Vec<u8>>, D::Error> {
            Ok(Option::<String>::deserialize(d)?.map(|s| super::dec(&s)))
        }
    }
}

#[derive(Clone, Copy, Debug, PartialEq, Eq, Serialize, Deserialize, Hash)]
pub enum Mode {
    Never,
    Success,
    Error,
    Always,
}

impl Mode {
    pub const ALL: [Mode; 4] = [Mode::Never, Mode::Success, Mode::Error, Mode::Always];
    pub fn on_ok(&self) -> bool {
        matches!(self, Mode::Success | Mode::Always)
    }
    pub fn on_err(&self) -> bool {
        matches!(self, Mode::Error | Mode::Always)
    }
}

pub type Coins = Vec<(String, u128)>;

#[derive(Clone, Debug, PartialEq, Eq, Serialize, Deserialize, Hash)]
pub enum Target {
    /// the dispatching contract itself
    SelfC,
    /// the "next" contract in the ring A -> B -> C -> A (anything else -> A)
    Other,
    /// a fixed address
    Addr(String),
}

#[derive(Clone, Debug, PartialEq, Eq, Serialize, Deserialize, Hash)]
pub enum Msg {
    Call { target: Target, funds: Coins, node: usize },
    BankSend { to: Target, coins: Coins },
    BankBurn { coins: Coins },
    Instantiate { code: u64, funds: Coins, label: String, admin: Option<String>, node: usize },
    Migrate { target: Target, code: u64, node: usize },
    UpdateAdmin { target: Target, admin: String },
    ClearAdmin { target: Target },
    Delegate { validator: String, denom: String, amount: u128 },
}

impl Msg {
    pub fn child(&self) -> Option<usize> {
        match self {
            Msg::Call { node, .. } | Msg::Instantiate { node, .. } | Msg::Migrate { node, .. } => Some(*node),
            _ => None,
        }
    }
}

#[derive(Clone, Debug, PartialEq, Eq, Serialize, Deserialize, Hash)]
pub struct Sub {
    pub id: u64,
    #[serde(with = "bstr")]
    pub payload: Vec<u8>,
    pub reply_on: Mode,
    pub msg: Msg,
    pub reply: Option<usize>,
}

#[derive(Clone, Debug, PartialEq, Eq, Serialize, Deserialize, Hash)]
pub enum WriteOp {
    Set(#[serde(with = "bstr")] Vec<u8>, #[serde(with = "bstr")] Vec<u8>),
    Remove(#[serde(with = "bstr")] Vec<u8>),
}

#[derive(Clone, Debug, PartialEq, Eq, Serialize, Deserialize, Hash, Default)]
pub struct Node {
    pub fail: bool,
    /// for reply handlers: 1 = fail iff invoked with an Ok result, 2 = fail iff invoked with an
    /// Err result (0 / absent = `fail` decides)
    #[serde(default)]
    pub fail_when: u8,
    pub writes: Vec<WriteOp>,
    pub attrs: Vec<(String, String)>,
    pub events: Vec<(String, Vec<(String, String)>)>,
    #[serde(with = "bstr::opt")]
    pub data: Option<Vec<u8>>,
    pub subs: Vec<Sub>,
}

/// How the root node is submitted to the chain.
#[derive(Clone, Debug, PartialEq, Eq, Serialize, Deserialize, Hash)]
pub enum Entry {
    Execute { sender: String, contract: String, funds: Coins },
    ExecuteHelper { sender: String, contract: String, funds: Coins },
    WasmSudo { contract: String },
    SudoWasm { contract: String },
    Instantiate { sender: String, code: u64, funds: Coins, label: String, admin: Option<String> },
    InstantiateHelper { sender: String, code: u64, funds: Coins, label: String, admin: Option<String> },
    Instantiate2Helper { sender: String, code: u64, funds: Coins, label: String, admin: Option<String>, #[serde(with = "bstr")] salt: Vec<u8> },
    Migrate { sender: String, contract: String, code: u64 },
    MigrateHelper { sender: String, contract: String, code: u64 },
    /// execute_multi: several messages in one transaction (calls carry their own root node)
    Multi { sender: String, msgs: Vec<Msg> },
    SudoMint { to: String, coins: Coins },
    SendHelper { from: String, to: String, coins: Coins },
    /// app.execute(sender, msg) for any message kind (calls carry their own root node)
    User { sender: String, msg: Msg },
    /// App::contract_storage_mut(contract).set/remove
    AccessorWrite { contract: String, write: WriteOp },
}

#[derive(Clone, Debug, PartialEq, Eq, Serialize, Deserialize, Hash)]
pub struct Program {
    pub entry: Entry,
    pub root: usize,
    pub nodes: Vec<Node>,
}

impl Program {
    pub fn size(&self) -> usize {
        let mut n = self.nodes.len();
        for nd in &self.nodes {
            for s in &nd.subs {
                if s.msg.child().is_none() {
                    n += 1;
                }
            }
        }
        n
    }
}

// ---------------------------------------------------------------------------------------------
// Abstract shapes: what the enumerator produces; families turn a shape into a Program.

#[derive(Clone, Debug)]
pub struct ShapeNode {
    pub variant: u64,
    pub subs: Vec<ShapeSub>,
}

#[derive(Clone, Debug)]
pub struct ShapeSub {
    pub mode: Mode,
    pub msg: ShapeMsg,
    pub reply: Option<ShapeNode>,
}

#[derive(Clone, Debug)]
pub enum ShapeMsg {
    Leaf(u64),
    Call(u64, ShapeNode),
}

/// Grammar parameters: NV node variants that may carry sub-messages, NF node variants that
/// fail (a failing node never gets to emit its sub-messages, so it is enumerated only as a leaf:
/// trees that differ only below a failing node are behaviourally the same program), NL leaf
/// message variants, NC call variants.
#[derive(Clone, Debug)]
pub struct Grammar {
    pub nv: u64,
    pub nf: u64,
    pub nl: u64,
    pub nc: u64,
    behs: Vec<u128>,
    seqs: Vec<u128>,
    subs: Vec<u128>,
}

impl Grammar {
    pub fn new(nv: u64, nf: u64, nl: u64, nc: u64, max: usize) -> Grammar {
        let mut g = Grammar { nv, nf, nl, nc, behs: vec![0; max + 1], seqs: vec![0; max + 1], subs: vec![0; max + 1] };
        g.seqs[0] = 1;
        for n in 1..=max {
            // behs(n) = NV * seqs(n-1)
            g.behs[n] = nv as u128 * g.seqs[n - 1] + if n == 1 { nf as u128 } else { 0 };
            // subs(n)
            let mut s: u128 = 0;
            if n == 1 {
                s += nl as u128;
            } else {
                s += nl as u128 * 3 * g.behs[n - 1];
            }
            s += nc as u128 * g.behs[n];
            for b in 1..n {
                s += nc as u128 * 3 * g.behs[b] * g.behs[n - b];
            }
            g.subs[n] = s;
            // seqs(n) = sum_{s=1..n} subs(s) * seqs(n-s)
            let mut q: u128 = 0;
            for k in 1..=n {
                q += g.subs[k] * g.seqs[n - k];
            }
            g.seqs[n] = q;
        }
        g
    }

    pub fn count(&self, size: usize) -> u128 {
        self.behs[size]
    }

    pub fn count_upto(&self, size: usize) -> u128 {
        (1..=size).map(|n| self.behs[n]).sum()
    }

    pub fn unrank(&self, size: usize, mut idx: u128) -> ShapeNode {
        assert!(idx < self.behs[size]);
        if size == 1 {
            // variants 0..nv succeed, nv..nv+nf fail
            return ShapeNode { variant: idx as u64, subs: vec![] };
        }
        let variant = (idx % self.nv as u128) as u64;
        idx /= self.nv as u128;
        ShapeNode { variant, subs: self.unrank_seq(size - 1, idx) }
    }

    fn unrank_seq(&self, m: usize, mut idx: u128) -> Vec<ShapeSub> {
        if m == 0 {
            assert_eq!(idx, 0);
            return vec![];
        }
        for k in 1..=m {
            let block = self.subs[k] * self.seqs[m - k];
            if idx < block {
                let si = idx % self.subs[k];
                let ri = idx / self.subs[k];
                let mut v = vec![self.unrank_sub(k, si)];
                v.extend(self.unrank_seq(m - k, ri));
                return v;
            }
            idx -= block;
        }
        unreachable!()
    }

    fn unrank_sub(&self, s: usize, mut idx: u128) -> ShapeSub {
        // leaf, Never
        if s == 1 {
            if idx < self.nl as u128 {
                return ShapeSub { mode: Mode::Never, msg: ShapeMsg::Leaf(idx as u64), reply: None };
            }
            idx -= self.nl as u128;
        } else {
            let block = self.nl as u128 * 3 * self.behs[s - 1];
            if idx < block {
                let leaf = (idx % self.nl as u128) as u64;
                idx /= self.nl as u128;
                let mode = Mode::ALL[1 + (idx % 3) as usize];
                idx /= 3;
                return ShapeSub { mode, msg: ShapeMsg::Leaf(leaf), reply: Some(self.unrank(s - 1, idx)) };
            }
            idx -= block;
        }
        // call, Never
        let block = self.nc as u128 * self.behs[s];
        if idx < block {
            let c = (idx % self.nc as u128) as u64;
            idx /= self.nc as u128;
            return ShapeSub { mode: Mode::Never, msg: ShapeMsg::Call(c, self.unrank(s, idx)), reply: None };
        }
        idx -= block;
        for b in 1..s {
            let block = self.nc as u128 * 3 * self.behs[b] * self.behs[s - b];
            if idx < block {
                let c = (idx % self.nc as u128) as u64;
                idx /= self.nc as u128;
                let mode = Mode::ALL[1 + (idx % 3) as usize];
                idx /= 3;
                let bi = idx % self.behs[b];
                let ri = idx / self.behs[b];
                return ShapeSub { mode, msg: ShapeMsg::Call(c, self.unrank(b, bi)), reply: Some(self.unrank(s - b, ri)) };
            }
            idx -= block;
        }
        unreachable!()
    }
}

#[cfg(test)]
mod tests {
    use super::*;
    #[test]
    fn core_counts() {
        let g = Grammar::new(1, 1, 2, 2, 9);
        assert_eq!(g.count_upto(1), 2);
        assert_eq!(g.count_upto(2), 8);
    }
}
