//! Layered breadth-first search over real chain states (engine E3 for the properties whose
//! operations are expressible as tree programs). A state is the complete raw storage + block
//! (+ the model state carried alongside); a transition restores the snapshot, runs one program
//! on the real App and on TreeModel, and compares. Deduplication is on the full raw dump, so
//! merged states have the same futures provided the subject has no hidden state (C19).

use super::cmp::Kind;
use super::driver::*;
use super::prog::*;
use super::world::*;
use crate::common::*;
use rayon::prelude::*;
use serde_json::{json, Value};
use std::rc::Rc;

#[derive(Clone)]
pub struct ExpState {
    pub s: StartState,
    pub path: Vec<u16>,
    pub key: u128,
}

pub struct ExploreOut {
    pub states: u64,
    pub transitions: u64,
    pub depth_completed: usize,
    pub closed: bool,
    pub replays_validated: u64,
    pub layers: Vec<u64>,
    pub digest: u64,
    pub stats: TreeStats,
    pub all_states: Vec<ExpState>,
    pub caps: Vec<String>,
}

pub type Invariant<'a> = &'a (dyn Fn(&Ctx, &mut World, &ExpState) -> u64 + Sync);

pub struct Explorer<'a> {
    pub ctx: &'a Ctx,
    pub name: String,
    pub alphabet: Vec<Program>,
    pub homes: &'a (dyn Fn(Kind) -> bool + Sync),
    pub max_depth: usize,
    pub max_states: usize,
    pub ext: bool,
    pub invariant: Option<Invariant<'a>>,
    pub keep_states: bool,
    /// operation gating (e.g. mint only while under the supply cap); None = always enabled
    pub enabled: Option<&'a (dyn Fn(&StartState, usize) -> bool + Sync)>,
}

fn state_key(s: &StartState) -> u128 {
    hash128(&(&s.storage.data, s.block.height, s.block.time.nanos(), &s.block.chain_id))
}

impl Explorer<'_> {
    pub fn run(&self, start: &StartState) -> ExploreOut {
        let ctx = self.ctx;
        let root = ExpState { s: start.clone(), path: vec![], key: state_key(start) };
        // shared by the workers: a state is kept only by the first transition that reaches it, so a
        // layer never holds more than its new states
        let seen = KeySet::new();
        seen.insert(root.key);
        let mut frontier = vec![root.clone()];
        let mut all_states = vec![root.clone()];
        let mut stats = TreeStats::default();
        let mut transitions = 0u64;
        let mut layers = vec![1u64];
        let mut edges_digest: u64 = 0;
        let mut depth = 0usize;
        let mut closed = false;
        let mut caps = vec![];
        let mut inv_evals = 0u64;
        let mut replays = 0u64;
        if let Some(inv) = self.invariant {
            inv_evals += with_world(self.ext, |w| inv(ctx, w, &root));
        }
        while depth < self.max_depth {
            if frontier.is_empty() {
                closed = true;
                break;
            }
            if ctx.elapsed() > ctx.budget_s() {
                caps.push(format!("{}: wall-clock budget reached after completing depth {}", self.name, depth));
                break;
            }
            if rss_gb() > rss_cap_gb() {
                caps.push(format!("{}: resident-memory cap {} GiB reached after completing depth {}", self.name, rss_cap_gb(), depth));
                break;
            }
            if ctx.vio_count.load(std::sync::atomic::Ordering::Relaxed) > 0 {
                // breadth-first order: the violations found so far are shortest ones; deeper layers add nothing to the verdict
                caps.push(format!("{}: stopped after depth {} because violations were found", self.name, depth));
                break;
            }
            let fam = format!("{}@depth{}", self.name, depth + 1);
            let hard_cap = std::sync::atomic::AtomicBool::new(false);
            // parallel phase: every (state, op)
            let results: Vec<(TreeStats, Vec<ExpState>, u64, u64)> = frontier
                .par_chunks(4)
                .map(|chunk| {
                    let mut lst = TreeStats::default();
                    let mut out = vec![];
                    let (mut nt, mut edges) = (0u64, 0u64);
                    with_world(self.ext, |world| {
                        for es in chunk {
                            if ctx.elapsed() > 4.0 * ctx.budget_s() || rss_gb() > 1.5 * rss_cap_gb() {
                                hard_cap.store(true, std::sync::atomic::Ordering::Relaxed);
                                break;
                            }
                            for (oi, op) in self.alphabet.iter().enumerate() {
                                if let Some(en) = self.enabled {
                                    if !en(&es.s, oi) {
                                        continue;
                                    }
                                }
                                let (real, model) = run_one(ctx, world, &fam, &es.s, op.clone(), self.homes, &mut lst, "");
                                let mst = resync(world, &real, model.st, &mut lst);
                                let ns = StartState { name: String::new(), storage: real.final_storage, block: es.s.block.clone(), mstate: mst };
                                let key = state_key(&ns);
                                edges = edges.wrapping_add(hash64(&(es.key, oi as u64, key, real.result.is_ok()), 77));
                                nt += 1;
                                if seen.insert(key) {
                                    let mut path = es.path.clone();
                                    path.push(oi as u16);
                                    out.push(ExpState { s: ns, path, key });
                                }
                            }
                        }
                    });
                    (lst, out, nt, edges)
                })
                .collect();
            // sequential phase: deterministic dedup
            let mut next: Vec<ExpState> = vec![];
            for (lst, out, nt, edges) in results {
                stats = stats.merge(lst);
                transitions += nt;
                edges_digest = edges_digest.wrapping_add(edges);
                for mut es in out {
                    es.s.name = format!("{}:path{:?}", self.name, es.path);
                    next.push(es);
                }
            }
            // (which worker reached a state first decides its witness path; order the frontier
            // by key so that everything downstream is independent of scheduling)
            next.sort_by_key(|e| e.key);
            if hard_cap.load(std::sync::atomic::Ordering::Relaxed) {
                caps.push(format!("{}: hard wall-clock / memory cap hit inside depth {}; that layer is incomplete", self.name, depth + 1));
                break;
            }
            depth += 1;
            layers.push(next.len() as u64);
            // replay validation + invariant on every new state
            let r: (u64, u64) = next
                .par_chunks(8)
                .map(|chunk| {
                    with_world(self.ext, |world| {
                        let mut rv = 0u64;
                        let mut iv = 0u64;
                        for es in chunk {
                            // witness path re-executed from the start state without snapshot restore in between
                            let mut first = true;
                            for oi in &es.path {
                                let p = Rc::new(self.alphabet[*oi as usize].clone());
                                let _ = world.run_real_opts(start, &p, first);
                                first = false;
                            }
                            rv += 1;
                            if world.app.storage().data != es.s.storage.data && ctx.id == "C19" {
                                ctx.violation(
                                    "c19:replay-from-genesis-differs-from-snapshot-derived-state:tree",
                                    json!({"explorer": self.name, "path": es.path, "ops": es.path.iter().map(|i| program_json(&self.alphabet[*i as usize])).collect::<Vec<_>>()}),
                                );
                            }
                            if let Some(inv) = self.invariant {
                                iv += inv(ctx, world, es);
                            }
                        }
                        (rv, iv)
                    })
                })
                .reduce(|| (0, 0), |a, b| (a.0 + b.0, a.1 + b.1));
            replays += r.0;
            inv_evals += r.1;
            if self.keep_states {
                all_states.extend(next.iter().cloned());
            } else {
                // a few witnesses per layer for the evidence samples
                let n = next.len();
                for i in [0usize, n / 2, n.saturating_sub(1)] {
                    if let Some(es) = next.get(i) {
                        if all_states.len() < 64 {
                            all_states.push(es.clone());
                        }
                    }
                }
            }
            if seen.len() > self.max_states {
                caps.push(format!("{}: state cap {} reached after completing depth {}", self.name, self.max_states, depth));
                frontier = next;
                break;
            }
            frontier = next;
        }
        if frontier.is_empty() {
            closed = true;
        }
        stats.programs += inv_evals;
        ExploreOut {
            states: seen.len() as u64,
            transitions,
            depth_completed: depth,
            closed,
            replays_validated: replays,
            layers,
            digest: edges_digest ^ hash64(&(seen.len() as u64), 5),
            stats,
            all_states,
            caps,
        }
    }
}

pub fn explore_json(o: &ExploreOut) -> Value {
    json!({"states": o.states, "transitions": o.transitions, "depth_completed": o.depth_completed, "closed_under_alphabet": o.closed,
           "new_states_per_layer": o.layers, "replays_validated": o.replays_validated, "graph_digest": format!("{:016x}", o.digest)})
}
