//! Scripted puppet contract: behaviour comes from a thread-local script (the program under
//! execution); every entry-point invocation appends an out-of-band trace record.

use super::prog::*;
use anyhow::anyhow;
use cosmwasm_std::{
    coin, to_json_binary, Addr, BankMsg, BankQuery, Binary, Coin, ContractInfoResponse, CosmosMsg, CustomQuery, Deps, DepsMut, Empty, Env, Event,
    MessageInfo, Order, QuerierWrapper, QueryRequest, Reply, ReplyOn, Response, StakingMsg, SubMsg, SubMsgResult, WasmMsg, WasmQuery,
};
use cw_multi_test::error::AnyResult;
use cw_multi_test::Contract;
use serde::{Deserialize, Serialize};
use std::cell::RefCell;
use std::rc::Rc;

#[derive(Clone, Debug, PartialEq, Eq, Serialize, Deserialize, Hash, PartialOrd, Ord)]
pub struct NEvent {
    pub ty: String,
    pub attrs: Vec<(String, String)>,
}

pub const CONTRACT_ATTR: &str = "_contract_address";

/// Normalises an event to what the properties constrain: entry-point events keep only type and
/// contract address; bank/staking module events keep type (transfer: also recipient, sender,
/// amount); everything else (wasm, wasm-*) is kept whole.
pub fn norm_event(ev: &Event) -> NEvent {
    let all: Vec<(String, String)> = ev.attributes.iter().map(|a| (a.key.clone(), a.value.clone())).collect();
    match ev.ty.as_str() {
        "execute" | "instantiate" | "migrate" | "sudo" | "reply" => NEvent {
            ty: ev.ty.clone(),
            attrs: all.into_iter().filter(|(k, _)| k == CONTRACT_ATTR).collect(),
        },
        "transfer" => NEvent {
            ty: ev.ty.clone(),
            attrs: all.into_iter().filter(|(k, _)| k == "recipient" || k == "sender" || k == "amount").collect(),
        },
        "delegate" | "unbond" | "redelegate" | "withdraw_delegator_reward" | "set_withdraw_address" => NEvent { ty: ev.ty.clone(), attrs: vec![] },
        _ => NEvent { ty: ev.ty.clone(), attrs: all },
    }
}

#[derive(Clone, Copy, Debug, PartialEq, Eq, Serialize, Deserialize, Hash)]
pub enum EntryKind {
    Execute,
    Instantiate,
    Sudo,
    Migrate,
    Reply,
}

pub type Dump = Vec<(Vec<u8>, Vec<u8>)>;

#[derive(Clone, Debug, PartialEq, Eq, Serialize, Deserialize, Hash, Default)]
pub struct Bundle {
    /// AllBalances of the watched accounts, in watch order
    pub balances: Vec<(String, Coins)>,
    /// smart "dump" query to each other ring contract: (storage dump, its own balance) or None if the query failed
    pub dumps: Vec<(String, Option<(Dump, Coins)>)>,
    /// extended part (C10 family): raw query of key "pre", contract info, code info, delegation, custom query outcome
    pub ext: Option<ExtBundle>,
}

#[derive(Clone, Debug, PartialEq, Eq, Serialize, Deserialize, Hash, Default)]
pub struct ExtBundle {
    pub raw_pre: Vec<(String, Vec<u8>)>,
    pub info: Vec<(String, Option<(u64, String, Option<String>)>)>,
    pub code_creators: Vec<(u64, Option<String>)>,
    pub delegation: u128,
    pub custom_ok: bool,
    pub all_balances: Vec<(String, Coins)>,
    /// total supply of each watched denomination, as told to the contract
    #[serde(default)]
    pub supply: Vec<(String, u128)>,
}

#[derive(Clone, Debug, PartialEq, Eq, Serialize, Deserialize, Hash)]
pub struct ReplyRec {
    pub id: u64,
    pub payload: Vec<u8>,
    pub ok: bool,
    pub events: Vec<NEvent>,
    pub data: Option<Vec<u8>>,
}

#[derive(Clone, Debug, PartialEq, Eq, Serialize, Deserialize, Hash)]
pub struct TraceRec {
    pub kind: EntryKind,
    pub code_tag: u8,
    pub contract: String,
    /// node index in the program; usize::MAX when the script has no behaviour for this invocation
    pub node: usize,
    pub sender: Option<String>,
    pub funds: Option<Coins>,
    pub block: (u64, u64, String),
    pub own_store: Dump,
    pub bundle: Bundle,
    pub reply: Option<ReplyRec>,
}

#[derive(Clone, Debug, Default)]
pub struct Watch {
    /// ring contracts A, B, C
    pub ring: Vec<String>,
    /// accounts whose balances every entry looks at (besides the contract itself)
    pub accounts: Vec<String>,
    /// extended bundle on/off
    pub ext: bool,
    pub all_principals: Vec<String>,
    pub delegator: String,
    pub validator: String,
    pub codes: Vec<u64>,
}

thread_local! {
    pub static SCRIPT: RefCell<Option<Rc<Program>>> = const { RefCell::new(None) };
    pub static TRACE: RefCell<Vec<TraceRec>> = const { RefCell::new(Vec::new()) };
    pub static WATCH: RefCell<Rc<Watch>> = RefCell::new(Rc::new(Watch::default()));
    /// Debug rendering of every Reply handed to a reply entry point since the last `set_script`
    /// (C19 only: C03 says nothing about error texts or gas_used)
    pub static REPLY_ERRS: RefCell<Vec<String>> = const { RefCell::new(Vec::new()) };
}

/// C19 switches this on: the whole Env of every entry-point invocation goes to the verbatim log.
pub static RECORD_ENV: std::sync::atomic::AtomicBool = std::sync::atomic::AtomicBool::new(false);

pub fn take_reply_errs() -> Vec<String> {
    REPLY_ERRS.with(|t| std::mem::take(&mut *t.borrow_mut()))
}

pub fn set_script(p: Rc<Program>) {
    SCRIPT.with(|s| *s.borrow_mut() = Some(p));
    TRACE.with(|t| t.borrow_mut().clear());
    REPLY_ERRS.with(|t| t.borrow_mut().clear());
}

pub fn take_trace() -> Vec<TraceRec> {
    TRACE.with(|t| std::mem::take(&mut *t.borrow_mut()))
}

pub fn set_watch(w: Watch) {
    WATCH.with(|x| *x.borrow_mut() = Rc::new(w));
}

pub fn other_of(ring: &[String], me: &str) -> String {
    match ring.iter().position(|r| r == me) {
        Some(i) => ring[(i + 1) % ring.len()].clone(),
        None => ring[0].clone(),
    }
}

pub fn resolve(ring: &[String], me: &str, t: &Target) -> String {
    match t {
        Target::SelfC => me.to_string(),
        Target::Other => other_of(ring, me),
        Target::Addr(a) => a.clone(),
    }
}

pub fn to_coins(c: &Coins) -> Vec<Coin> {
    c.iter().map(|(d, a)| coin(*a, d.clone())).collect()
}

pub fn from_coins(c: &[Coin]) -> Coins {
    c.iter().map(|c| (c.denom.clone(), c.amount.u128())).collect()
}

#[derive(Serialize, Deserialize, Debug)]
pub struct NodeMsg {
    pub n: usize,
}

#[derive(Serialize, Deserialize)]
pub struct DumpResp {
    pub store: Vec<(Binary, Binary)>,
    pub balance: Vec<Coin>,
    /// which code answered (the puppet's tag = its code id in the tree worlds)
    #[serde(default)]
    pub tag: u8,
}

/// The entry the querying side adds to a dumped store: which code answered the smart query.
pub const ANSWERED_BY: &[u8] = b"\xff<smart query answered by code>";

fn all_balances<Q: CustomQuery>(q: &QuerierWrapper<Q>, addr: &str) -> Coins {
    #[allow(deprecated)]
    let r: Result<cosmwasm_std::AllBalanceResponse, _> = q.query(&QueryRequest::Bank(BankQuery::AllBalances { address: addr.to_string() }));
    match r {
        Ok(r) => from_coins(&r.amount),
        Err(_) => vec![("<query-error>".into(), 0)],
    }
}

fn make_bundle(deps: &Deps, env: &Env, w: &Watch) -> Bundle {
    let me = env.contract.address.as_str();
    let mut b = Bundle::default();
    b.balances.push((me.to_string(), all_balances(&deps.querier, me)));
    for a in &w.accounts {
        b.balances.push((a.clone(), all_balances(&deps.querier, a)));
    }
    for c in &w.ring {
        if c == me {
            continue;
        }
        let r: Result<DumpResp, _> = deps.querier.query_wasm_smart(c.clone(), &Empty {});
        b.dumps.push((
            c.clone(),
            r.ok().map(|d| {
                let mut store: Dump = d.store.into_iter().map(|(k, v)| (k.to_vec(), v.to_vec())).collect();
                store.push((ANSWERED_BY.to_vec(), vec![d.tag]));
                (store, from_coins(&d.balance))
            }),
        ));
    }
    if w.ext {
        let mut e = ExtBundle::default();
        for c in &w.ring {
            let raw = deps.querier.query_wasm_raw(c.clone(), b"pre".to_vec()).ok().flatten().unwrap_or_default();
            e.raw_pre.push((c.clone(), raw));
            let info: Result<ContractInfoResponse, _> = deps.querier.query(&QueryRequest::Wasm(WasmQuery::ContractInfo { contract_addr: c.clone() }));
            e.info.push((c.clone(), info.ok().map(|i| (i.code_id, i.creator.into_string(), i.admin.map(|a| a.into_string())))));
        }
        for code in &w.codes {
            let ci = deps.querier.query_wasm_code_info(*code).ok();
            e.code_creators.push((*code, ci.map(|c| c.creator.into_string())));
        }
        e.delegation = deps
            .querier
            .query_delegation(w.delegator.clone(), w.validator.clone())
            .ok()
            .flatten()
            .map(|d| d.amount.amount.u128())
            .unwrap_or(0);
        let cq: Result<Empty, _> = deps.querier.query(&QueryRequest::Custom(Empty {}));
        e.custom_ok = cq.is_ok();
        for a in &w.all_principals {
            e.all_balances.push((a.clone(), all_balances(&deps.querier, a)));
        }
        for d in super::world::SUPPLY_DENOMS {
            e.supply.push((d.to_string(), deps.querier.query_supply(d).map(|c| c.amount.u128()).unwrap_or(u128::MAX)));
        }
        b.ext = Some(e);
    }
    b
}

pub fn to_cosmos(msg: &Msg, ring: &[String], me: &str) -> AnyResult<CosmosMsg> {
    Ok(match msg {
        Msg::Call { target, funds, node } => WasmMsg::Execute { contract_addr: resolve(ring, me, target), msg: to_json_binary(&NodeMsg { n: *node })?, funds: to_coins(funds) }.into(),
        Msg::BankSend { to, coins } => BankMsg::Send { to_address: resolve(ring, me, to), amount: to_coins(coins) }.into(),
        Msg::BankBurn { coins } => BankMsg::Burn { amount: to_coins(coins) }.into(),
        Msg::Instantiate { code, funds, label, admin, node } => {
            WasmMsg::Instantiate { admin: admin.clone(), code_id: *code, msg: to_json_binary(&NodeMsg { n: *node })?, funds: to_coins(funds), label: label.clone() }.into()
        }
        Msg::Migrate { target, code, node } => WasmMsg::Migrate { contract_addr: resolve(ring, me, target), new_code_id: *code, msg: to_json_binary(&NodeMsg { n: *node })? }.into(),
        Msg::UpdateAdmin { target, admin } => WasmMsg::UpdateAdmin { contract_addr: resolve(ring, me, target), admin: admin.clone() }.into(),
        Msg::ClearAdmin { target } => WasmMsg::ClearAdmin { contract_addr: resolve(ring, me, target) }.into(),
        Msg::Delegate { validator, denom, amount } => StakingMsg::Delegate { validator: validator.clone(), amount: coin(*amount, denom.clone()) }.into(),
    })
}

pub struct Puppet {
    pub tag: u8,
}

impl Puppet {
    #[allow(clippy::too_many_arguments)]
    fn run(&self, kind: EntryKind, deps: DepsMut, env: Env, info: Option<MessageInfo>, node: Option<usize>, reply: Option<ReplyRec>) -> AnyResult<Response> {
        let script = SCRIPT.with(|s| s.borrow().clone()).ok_or_else(|| anyhow!("no script"))?;
        let watch = WATCH.with(|w| w.borrow().clone());
        let me = env.contract.address.to_string();
        let reply_ok: Option<bool> = reply.as_ref().map(|r| r.ok);
        let mut own_store: Dump = deps.storage.range(None, None, Order::Ascending).collect();
        // the contract's bounded iterations must be the matching parts of its full iteration (start
        // bounds ending in 0xFF, both orders); a disagreement is recorded as a marker entry, which no
        // model state contains
        // (bounds: a few fixed ones and the contract's own first, middle and last key - an exclusive
        // end bound equal to a key must leave that key out, whether it is committed or pending)
        let mut bounds: Vec<Vec<u8>> = vec![b"a\xff".to_vec(), b"m".to_vec(), b"\xff".to_vec(), b"pre\xff\xff".to_vec(), vec![]];
        if !own_store.is_empty() {
            for i in [0, own_store.len() / 2, own_store.len() - 1] {
                if !bounds.contains(&own_store[i].0) {
                    bounds.push(own_store[i].0.clone());
                }
            }
        }
        for b in bounds.iter().map(|b| b.as_slice()) {
            let from: Dump = deps.storage.range(Some(b), None, Order::Ascending).collect();
            let want_from: Dump = own_store.iter().filter(|(k, _)| k.as_slice() >= b).cloned().collect();
            let below: Dump = deps.storage.range(None, Some(b), Order::Descending).collect();
            let mut want_below: Dump = own_store.iter().filter(|(k, _)| k.as_slice() < b).cloned().collect();
            want_below.reverse();
            if from != want_from || below != want_below {
                own_store.push((b"\xff<own bounded iteration disagrees with own full iteration at bound>".to_vec(), b.to_vec()));
                break;
            }
        }
        if RECORD_ENV.load(std::sync::atomic::Ordering::Relaxed) {
            REPLY_ERRS.with(|t| t.borrow_mut().push(format!("{:?} {:?}", kind, env)));
        }
        // keys-only and values-only iteration (own trait methods a storage may override) are the two
        // halves of the full iteration, with and without bounds
        {
            let n = own_store.iter().filter(|(k, _)| !k.starts_with(b"\xff<own")).count();
            let keys: Vec<Vec<u8>> = deps.storage.range_keys(None, None, Order::Ascending).collect();
            let vals: Vec<Vec<u8>> = deps.storage.range_values(None, None, Order::Ascending).collect();
            let mut vals_desc: Vec<Vec<u8>> = deps.storage.range_values(None, Some(b"\xff\xff\xff"), Order::Descending).collect();
            vals_desc.reverse();
            let full = &own_store[..n];
            let want_below: Vec<Vec<u8>> = full.iter().filter(|(k, _)| k.as_slice() < b"\xff\xff\xff".as_slice()).map(|(_, v)| v.clone()).collect();
            if keys.len() != n || vals.len() != n || keys.iter().zip(full.iter()).any(|(k, f)| *k != f.0) || vals.iter().zip(full.iter()).any(|(v, f)| *v != f.1) || vals_desc != want_below {
                own_store.push((b"\xff<own keys-only / values-only iteration disagrees with own full iteration>".to_vec(), format!("keys {} values {} full {}", keys.len(), vals.len(), n).into_bytes()));
            }
        }
        let bundle = make_bundle(&deps.as_ref(), &env, &watch);
        let rec = TraceRec {
            kind,
            code_tag: self.tag,
            contract: me.clone(),
            node: node.unwrap_or(usize::MAX),
            sender: info.as_ref().map(|i| i.sender.to_string()),
            funds: info.as_ref().map(|i| from_coins(&i.funds)),
            block: (env.block.height, env.block.time.nanos(), env.block.chain_id.clone()),
            own_store,
            bundle,
            reply,
        };
        TRACE.with(|t| t.borrow_mut().push(rec));
        let Some(idx) = node else {
            return Ok(Response::default());
        };
        let Some(nd) = script.nodes.get(idx) else {
            return Ok(Response::default());
        };
        for w in &nd.writes {
            match w {
                WriteOp::Set(k, v) => deps.storage.set(k, v),
                WriteOp::Remove(k) => deps.storage.remove(k),
            }
        }
        let cond_fail = match (nd.fail_when, &reply_ok) {
            (1, Some(true)) | (2, Some(false)) => true,
            _ => false,
        };
        if nd.fail || cond_fail {
            return Err(anyhow!("scripted failure at node {}", idx));
        }
        let mut resp = Response::new();
        for (k, v) in &nd.attrs {
            resp = resp.add_attribute(k.clone(), v.clone());
        }
        for (ty, attrs) in &nd.events {
            let mut ev = Event::new(ty.clone());
            for (k, v) in attrs {
                ev = ev.add_attribute(k.clone(), v.clone());
            }
            resp = resp.add_event(ev);
        }
        if let Some(d) = &nd.data {
            resp = resp.set_data(Binary::from(d.clone()));
        }
        for s in &nd.subs {
            let msg: CosmosMsg = to_cosmos(&s.msg, &watch.ring, &me)?;
            resp = resp.add_submessage(SubMsg {
                id: s.id,
                payload: Binary::from(s.payload.clone()),
                msg,
                gas_limit: None,
                reply_on: match s.reply_on {
                    Mode::Never => ReplyOn::Never,
                    Mode::Success => ReplyOn::Success,
                    Mode::Error => ReplyOn::Error,
                    Mode::Always => ReplyOn::Always,
                },
            });
        }
        Ok(resp)
    }
}

fn parse_node(msg: &[u8]) -> Option<usize> {
    serde_json::from_slice::<NodeMsg>(msg).ok().map(|m| m.n)
}

impl Contract<Empty, Empty> for Puppet {
    fn execute(&self, deps: DepsMut, env: Env, info: MessageInfo, msg: Vec<u8>) -> AnyResult<Response> {
        self.run(EntryKind::Execute, deps, env, Some(info), parse_node(&msg), None)
    }

    fn instantiate(&self, deps: DepsMut, env: Env, info: MessageInfo, msg: Vec<u8>) -> AnyResult<Response> {
        self.run(EntryKind::Instantiate, deps, env, Some(info), parse_node(&msg), None)
    }

    fn query(&self, deps: Deps, env: Env, _msg: Vec<u8>) -> AnyResult<Binary> {
        let store: Vec<(Binary, Binary)> = deps.storage.range(None, None, Order::Ascending).map(|(k, v)| (Binary::from(k), Binary::from(v))).collect();
        #[allow(deprecated)]
        let balance = deps.querier.query_all_balances(env.contract.address)?;
        Ok(to_json_binary(&DumpResp { store, balance, tag: self.tag })?)
    }

    fn sudo(&self, deps: DepsMut, env: Env, msg: Vec<u8>) -> AnyResult<Response> {
        self.run(EntryKind::Sudo, deps, env, None, parse_node(&msg), None)
    }

    fn reply(&self, deps: DepsMut, env: Env, msg: Reply) -> AnyResult<Response> {
        let script = SCRIPT.with(|s| s.borrow().clone());
        let mut node = None;
        if let Some(sc) = &script {
            'outer: for nd in &sc.nodes {
                for s in &nd.subs {
                    if s.id == msg.id {
                        node = s.reply;
                        break 'outer;
                    }
                }
            }
        }
        // everything the reply was handed, verbatim (gas_used, error text, msg_responses included)
        REPLY_ERRS.with(|t| t.borrow_mut().push(format!("{:?}", msg)));
        let rr = match &msg.result {
            SubMsgResult::Ok(r) => ReplyRec {
                id: msg.id,
                payload: msg.payload.to_vec(),
                ok: true,
                events: r.events.iter().map(norm_event).collect(),
                #[allow(deprecated)]
                data: r.data.as_ref().map(|d| d.to_vec()),
            },
            SubMsgResult::Err(_) => {
                ReplyRec { id: msg.id, payload: msg.payload.to_vec(), ok: false, events: vec![], data: None }
            }
        };
        self.run(EntryKind::Reply, deps, env, None, node, Some(rr))
    }

    fn migrate(&self, deps: DepsMut, env: Env, msg: Vec<u8>) -> AnyResult<Response> {
        self.run(EntryKind::Migrate, deps, env, None, parse_node(&msg), None)
    }
}

/// The same scripted behaviour behind `ContractWrapper::new_with_empty(..)` with the reply, sudo
/// and migrate entry points added through the `_empty` builder steps (in that order), so that the
/// wrapper's glue (message deserialisation, lifting of responses, carrying of entry points
/// through the builder steps) is part of every tree exploration. Used for code 2.
pub fn wrapped_puppet() -> Box<dyn Contract<Empty, Empty>> {
    const P: Puppet = Puppet { tag: 2 };
    fn exec(deps: DepsMut, env: Env, info: MessageInfo, msg: NodeMsg) -> AnyResult<Response> {
        P.run(EntryKind::Execute, deps, env, Some(info), Some(msg.n), None)
    }
    fn inst(deps: DepsMut, env: Env, info: MessageInfo, msg: NodeMsg) -> AnyResult<Response> {
        P.run(EntryKind::Instantiate, deps, env, Some(info), Some(msg.n), None)
    }
    fn query(deps: Deps, env: Env, _msg: Empty) -> AnyResult<Binary> {
        Contract::query(&P, deps, env, vec![])
    }
    fn sudo(deps: DepsMut, env: Env, msg: NodeMsg) -> AnyResult<Response> {
        P.run(EntryKind::Sudo, deps, env, None, Some(msg.n), None)
    }
    fn migrate(deps: DepsMut, env: Env, msg: NodeMsg) -> AnyResult<Response> {
        P.run(EntryKind::Migrate, deps, env, None, Some(msg.n), None)
    }
    fn reply(deps: DepsMut, env: Env, msg: Reply) -> AnyResult<Response> {
        Contract::reply(&P, deps, env, msg)
    }
    Box::new(cw_multi_test::ContractWrapper::new_with_empty(exec, inst, query).with_reply_empty(reply).with_sudo_empty(sudo).with_migrate_empty(migrate))
}

/// The wrapped puppet WITHOUT a migrate entry point (no `with_migrate*` step): a code nobody can
/// migrate to.
pub fn wrapped_puppet_without_migrate() -> Box<dyn Contract<Empty, Empty>> {
    const P: Puppet = Puppet { tag: 9 };
    fn exec(deps: DepsMut, env: Env, info: MessageInfo, msg: NodeMsg) -> AnyResult<Response> {
        P.run(EntryKind::Execute, deps, env, Some(info), Some(msg.n), None)
    }
    fn inst(deps: DepsMut, env: Env, info: MessageInfo, msg: NodeMsg) -> AnyResult<Response> {
        P.run(EntryKind::Instantiate, deps, env, Some(info), Some(msg.n), None)
    }
    fn query(deps: Deps, env: Env, _msg: Empty) -> AnyResult<Binary> {
        Contract::query(&P, deps, env, vec![])
    }
    fn sudo(deps: DepsMut, env: Env, msg: NodeMsg) -> AnyResult<Response> {
        P.run(EntryKind::Sudo, deps, env, None, Some(msg.n), None)
    }
    fn reply(deps: DepsMut, env: Env, msg: Reply) -> AnyResult<Response> {
        Contract::reply(&P, deps, env, msg)
    }
    Box::new(cw_multi_test::ContractWrapper::new_with_empty(exec, inst, query).with_reply_empty(reply).with_sudo_empty(sudo))
}

#[allow(dead_code)]
pub fn addr(s: &str) -> Addr {
    Addr::unchecked(s)
}
