//! The real side: App construction, start states, program runner, observation through
//! public accessors.

use super::model::*;
use super::prog::*;
use super::puppet::*;
use crate::common::*;
use cosmwasm_std::testing::{mock_env, MockApi};
use cosmwasm_std::{coin, Addr, BlockInfo, Decimal, Empty, Validator, WasmMsg};
use cw_multi_test::{
    AddressGenerator, App, AppBuilder, BankKeeper, DistributionKeeper, Executor, FailingModule, GovFailingModule, IbcFailingModule, SimpleAddressGenerator,
    StakeKeeper, StakingInfo, StargateFailing, SudoMsg, WasmKeeper, WasmSudo,
};
use std::collections::{BTreeMap, HashMap};
use std::rc::Rc;

pub type TApp = App<
    BankKeeper,
    MockApi,
    SnapStorage,
    FailingModule<Empty, Empty, Empty>,
    WasmKeeper<Empty, Empty>,
    StakeKeeper,
    DistributionKeeper,
    IbcFailingModule,
    GovFailingModule,
    StargateFailing,
>;

pub const SUPPLY: &str = "<supply>";
pub const VALIDATOR: &str = "valoper1";
pub const DENOMS: [&str; 3] = ["x", "y", "TOKEN"];
/// denominations whose total supply is observed
pub const SUPPLY_DENOMS: [&str; 4] = ["x", "y", "TOKEN", "z"];

#[derive(Clone, Debug)]
pub struct StartState {
    pub name: String,
    pub storage: SnapStorage,
    pub block: BlockInfo,
    pub mstate: MState,
}

impl StartState {
    pub fn mblock(&self) -> (u64, u64, String) {
        (self.block.height, self.block.time.nanos(), self.block.chain_id.clone())
    }
}

pub struct World {
    pub app: TApp,
    pub info: WorldInfo,
    pub rich: String,
    pub poor: String,
    pub third: String,
    pub a: String,
    pub b: String,
    pub c: String,
    pub candidates: Vec<String>,
    pub rich_amount: u128,
    obs_cache: HashMap<u128, MState>,
    pub obs_cache_hits: u64,
    pub obs_cache_misses: u64,
}

#[derive(Clone, Debug)]
pub struct RealOut {
    /// Ok(events, data) or Err(message)
    pub result: Result<(Vec<NEvent>, Option<Vec<u8>>), String>,
    pub panicked: Option<String>,
    pub trace: Vec<TraceRec>,
    pub storage_unchanged: bool,
    pub block_unchanged: bool,
    pub obs: MState,
    /// address returned by an instantiate helper
    pub helper_addr: Option<String>,
    pub final_storage: SnapStorage,
    pub multi: Option<Vec<(Vec<NEvent>, Option<Vec<u8>>)>>,
}

#[derive(Clone, Debug)]
pub struct ModelOut {
    pub result: Result<MResp, ()>,
    pub trace: Vec<TraceRec>,
    pub st: MState,
    pub created: Vec<String>,
    pub multi: Vec<MResp>,
}

/// What the model state looks like through the public accessors: the staking pool account is
/// not addressable by queries, so it is replaced by the per-denom total supply.
pub fn observable(st: &MState, staking_module: &str) -> MState {
    let mut o = st.clone();
    let mut supply: BTreeMap<String, u128> = BTreeMap::new();
    for m in o.bank.values() {
        for (d, a) in m {
            *supply.entry(d.clone()).or_default() += *a;
        }
    }
    o.bank.remove(staking_module);
    if !supply.is_empty() {
        o.bank.insert(SUPPLY.to_string(), supply);
    }
    o
}

/// Inverse of `observable`: turns an observation back into a model state (used to re-synchronise
/// the model with the real chain after a transition that diverged, so that one divergence is
/// reported once and does not cascade through later transactions).
pub fn from_observed(obs: &MState, staking_module: &str) -> MState {
    let mut st = obs.clone();
    if let Some(supply) = st.bank.remove(SUPPLY) {
        let mut pool: BTreeMap<String, u128> = BTreeMap::new();
        for (d, total) in supply {
            let others: u128 = st.bank.values().map(|m| m.get(&d).copied().unwrap_or(0)).sum();
            if total > others {
                pool.insert(d, total - others);
            }
        }
        if !pool.is_empty() {
            st.bank.insert(staking_module.to_string(), pool);
        }
    }
    st
}

impl World {
    pub fn new() -> World {
        Self::new_with(20)
    }

    /// `rich_amount`: initial balance of the rich account in each denomination (0 = empty ledger).
    pub fn new_with(rich_amount: u128) -> World {
        let api = MockApi::default();
        let rich = api.addr_make("rich").into_string();
        let poor = api.addr_make("poor").into_string();
        let third = api.addr_make("third").into_string();
        let block = mock_env().block;
        let rich_addr = Addr::unchecked(&rich);
        let mut app: TApp = AppBuilder::new().with_storage(SnapStorage::new()).build(|router, api, storage| {
            if rich_amount > 0 {
                router
                    .bank
                    .init_balance(storage, &rich_addr, vec![coin(rich_amount, "x"), coin(rich_amount, "y"), coin(rich_amount, "TOKEN")])
                    .unwrap();
            }
            router.staking.setup(storage, StakingInfo { bonded_denom: "TOKEN".into(), unbonding_time: 60, apr: Decimal::percent(10) }).unwrap();
            router
                .staking
                .add_validator(api, storage, &block, Validator::create(VALIDATOR.to_string(), Decimal::percent(10), Decimal::percent(90), Decimal::percent(1)))
                .unwrap();
        });
        let creator = api.addr_make("creator").into_string();
        // (stored in the order 2, 1: a code's id is not its position in the keeper's list of codes)
        let c2 = app.store_code_with_id(Addr::unchecked(&creator), 2, wrapped_puppet()).unwrap();
        let c1 = app.store_code_with_id(Addr::unchecked(&creator), 1, Box::new(Puppet { tag: 1 })).unwrap();
        assert_eq!((c1, c2), (1, 2));
        // code 9: built through ContractWrapper without a migrate step. The model does not know it
        // (a migration to it must be refused like one to a missing code); no grammar instantiates it.
        app.store_code_with_id(Addr::unchecked(&creator), 9, wrapped_puppet_without_migrate()).unwrap();
        let mut info = WorldInfo::default();
        info.codes.insert(1, creator.clone());
        info.codes.insert(2, creator);
        info.validators = vec![VALIDATOR.to_string()];
        info.bonded_denom = "TOKEN".into();
        info.staking_module = "staking_module".into();
        // address table harvested from the public address generator
        let mut scratch = SnapStorage::new();
        for code in 1..=3u64 {
            for inst in 0..24u64 {
                let a = SimpleAddressGenerator.contract_address(&api, &mut scratch, code, inst).unwrap().into_string();
                info.addr_table.insert((code, inst), a);
            }
        }
        let a = info.addr_table[&(1, 0)].clone();
        let b = info.addr_table[&(1, 1)].clone();
        let c = info.addr_table[&(2, 2)].clone();
        info.watch = Watch {
            ring: vec![a.clone(), b.clone(), c.clone()],
            accounts: vec![rich.clone()],
            ext: false,
            all_principals: vec![rich.clone(), poor.clone(), third.clone(), a.clone(), b.clone(), c.clone()],
            delegator: rich.clone(),
            validator: VALIDATOR.to_string(),
            codes: vec![1, 2, 3],
        };
        let mut candidates = vec![rich.clone(), poor.clone(), third.clone()];
        candidates.extend(info.addr_table.values().cloned());
        candidates.sort();
        candidates.dedup();
        World { app, info, rich, poor, third, a, b, c, candidates, rich_amount, obs_cache: HashMap::new(), obs_cache_hits: 0, obs_cache_misses: 0 }
    }

    pub fn set_ext(&mut self, ext: bool) {
        self.info.watch.ext = ext;
        set_watch(self.info.watch.clone());
    }

    /// The state before any contract exists.
    pub fn pre_genesis(&self) -> StartState {
        let mut m = MState::default();
        let mut bal = BTreeMap::new();
        for d in DENOMS {
            bal.insert(d.to_string(), self.rich_amount);
        }
        if self.rich_amount > 0 {
            m.bank.insert(self.rich.clone(), bal);
        }
        StartState { name: "pre-genesis".into(), storage: self.app.storage().clone(), block: self.app.block_info(), mstate: m }
    }

    /// Programs that create the three ring contracts (A funded with admin rich, B unfunded with
    /// admin A, C from code 2 without admin), each writing a pre-existing key.
    pub fn genesis_programs(&self) -> Vec<Program> {
        let mk = |code: u64, funds: Coins, label: &str, admin: Option<String>| Program {
            entry: Entry::Instantiate { sender: self.rich.clone(), code, funds, label: label.into(), admin },
            root: 0,
            nodes: vec![Node { writes: vec![WriteOp::Set(b"pre".to_vec(), b"0".to_vec())], ..Default::default() }],
        };
        vec![
            mk(1, vec![("x".into(), 5), ("y".into(), 5), ("TOKEN".into(), 3)], "A", Some(self.rich.clone())),
            mk(1, vec![], "B", Some(self.a.clone())),
            mk(2, vec![("x".into(), 1)], "C", None),
        ]
    }

    fn key(storage: &SnapStorage) -> u128 {
        hash128(&storage.data)
    }

    /// Observes the complete chain state through public accessors only.
    pub fn observe(&mut self) -> MState {
        let k = Self::key(self.app.storage());
        if let Some(o) = self.obs_cache.get(&k) {
            self.obs_cache_hits += 1;
            return o.clone();
        }
        self.obs_cache_misses += 1;
        let st = self.observe_uncached();
        if self.obs_cache.len() > 200_000 {
            self.obs_cache.clear();
        }
        self.obs_cache.insert(k, st.clone());
        st
    }

    pub fn observe_uncached(&self) -> MState {
        let mut st = MState::default();
        for addr in &self.candidates {
            let ad = Addr::unchecked(addr);
            if let Ok(cd) = self.app.contract_data(&ad) {
                let store: Map = self.app.dump_wasm_raw(&ad).into_iter().collect();
                st.contracts.insert(
                    addr.clone(),
                    MContract { code_id: cd.code_id, creator: cd.creator.into_string(), admin: cd.admin.map(|a| a.into_string()), label: cd.label, store },
                );
            } else {
                // a contract-less address must not show contract storage either
                let store = self.app.dump_wasm_raw(&ad);
                if !store.is_empty() {
                    st.contracts.insert(
                        addr.clone(),
                        MContract { code_id: 0, creator: "<no registry entry but storage present>".into(), admin: None, label: String::new(), store: store.into_iter().collect() },
                    );
                }
            }
            #[allow(deprecated)]
            let bal = self.app.wrap().query_all_balances(addr.clone()).unwrap_or_default();
            let mut m = BTreeMap::new();
            for c in bal {
                if !c.amount.is_zero() {
                    m.insert(c.denom, c.amount.u128());
                }
            }
            if !m.is_empty() {
                st.bank.insert(addr.clone(), m);
            }
        }
        let mut supply = BTreeMap::new();
        for d in SUPPLY_DENOMS {
            if let Ok(s) = self.app.wrap().query_supply(d) {
                if !s.amount.is_zero() {
                    supply.insert(d.to_string(), s.amount.u128());
                }
            }
        }
        if !supply.is_empty() {
            st.bank.insert(SUPPLY.to_string(), supply);
        }
        let delegators: Vec<String> = self.info.watch.all_principals.clone();
        for d in delegators {
            for v in &self.info.validators {
                if let Ok(Some(fd)) = self.app.wrap().query_delegation(d.clone(), v.clone()) {
                    if !fd.amount.amount.is_zero() {
                        st.deleg.insert((d.clone(), v.clone()), fd.amount.amount.u128());
                    }
                }
            }
        }
        st
    }

    pub fn run_real(&mut self, start: &StartState, prog: &Rc<Program>) -> RealOut {
        self.run_real_opts(start, prog, true)
    }

    /// `restore = false` continues on whatever the app's storage currently is (used to replay a
    /// witness path without snapshot restore between the steps).
    pub fn run_real_opts(&mut self, start: &StartState, prog: &Rc<Program>, restore: bool) -> RealOut {
        if restore {
            self.app.set_block(start.block.clone());
            *self.app.storage_mut() = start.storage.clone();
        }
        let before = self.app.storage().clone();
        set_script(prog.clone());
        let root = NodeMsg { n: prog.root };
        let app = &mut self.app;
        let mut helper_addr = None;
        let mut multi = None;
        let ring = self.info.watch.ring.clone();
        let r = catch(|| -> Result<(Vec<NEvent>, Option<Vec<u8>>), String> {
            let conv = |r: cw_multi_test::AppResponse| (r.events.iter().map(norm_event).collect::<Vec<_>>(), r.data.map(|d| d.to_vec()));
            match &prog.entry {
                Entry::Execute { sender, contract, funds } => app
                    .execute(
                        Addr::unchecked(sender),
                        WasmMsg::Execute { contract_addr: contract.clone(), msg: cosmwasm_std::to_json_binary(&root).unwrap(), funds: to_coins(funds) }.into(),
                    )
                    .map(conv)
                    .map_err(|e| format!("{:#}", e)),
                Entry::ExecuteHelper { sender, contract, funds } => app
                    .execute_contract(Addr::unchecked(sender), Addr::unchecked(contract), &root, &to_coins(funds))
                    .map(conv)
                    .map_err(|e| format!("{:#}", e)),
                Entry::WasmSudo { contract } => app.wasm_sudo(Addr::unchecked(contract), &root).map(conv).map_err(|e| format!("{:#}", e)),
                Entry::SudoWasm { contract } => app
                    .sudo(SudoMsg::Wasm(WasmSudo::new(&Addr::unchecked(contract), &root).unwrap()))
                    .map(conv)
                    .map_err(|e| format!("{:#}", e)),
                Entry::Instantiate { sender, code, funds, label, admin } => app
                    .execute(
                        Addr::unchecked(sender),
                        WasmMsg::Instantiate { admin: admin.clone(), code_id: *code, msg: cosmwasm_std::to_json_binary(&root).unwrap(), funds: to_coins(funds), label: label.clone() }
                            .into(),
                    )
                    .map(conv)
                    .map_err(|e| format!("{:#}", e)),
                Entry::InstantiateHelper { sender, code, funds, label, admin } => app
                    .instantiate_contract(*code, Addr::unchecked(sender), &root, &to_coins(funds), label.clone(), admin.clone())
                    .map(|a| {
                        helper_addr = Some(a.into_string());
                        (vec![], None)
                    })
                    .map_err(|e| format!("{:#}", e)),
                Entry::Instantiate2Helper { sender, code, funds, label, admin, salt } => app
                    .instantiate2_contract(*code, Addr::unchecked(sender), &root, &to_coins(funds), label.clone(), admin.clone(), salt.clone())
                    .map(|a| {
                        helper_addr = Some(a.into_string());
                        (vec![], None)
                    })
                    .map_err(|e| format!("{:#}", e)),
                Entry::Migrate { sender, contract, code } => app
                    .execute(
                        Addr::unchecked(sender),
                        WasmMsg::Migrate { contract_addr: contract.clone(), new_code_id: *code, msg: cosmwasm_std::to_json_binary(&root).unwrap() }.into(),
                    )
                    .map(conv)
                    .map_err(|e| format!("{:#}", e)),
                Entry::MigrateHelper { sender, contract, code } => app
                    .migrate_contract(Addr::unchecked(sender), Addr::unchecked(contract), &root, *code)
                    .map(conv)
                    .map_err(|e| format!("{:#}", e)),
                Entry::Multi { sender, msgs } => {
                    let cm: Vec<cosmwasm_std::CosmosMsg> = msgs.iter().map(|m| to_cosmos(m, &ring, sender).unwrap()).collect();
                    app.execute_multi(Addr::unchecked(sender), cm)
                        .map(|v| {
                            let all: Vec<_> = v.into_iter().map(conv).collect();
                            let last = all.last().cloned().unwrap_or_default();
                            multi = Some(all);
                            last
                        })
                        .map_err(|e| format!("{:#}", e))
                }
                Entry::User { sender, msg } => app.execute(Addr::unchecked(sender), to_cosmos(msg, &ring, sender).unwrap()).map(conv).map_err(|e| format!("{:#}", e)),
                Entry::AccessorWrite { contract, write } => {
                    let mut st = app.contract_storage_mut(&Addr::unchecked(contract));
                    match write {
                        WriteOp::Set(k, v) => st.set(k, v),
                        WriteOp::Remove(k) => st.remove(k),
                    }
                    Ok((vec![], None))
                }
                Entry::SudoMint { to, coins } => app
                    .sudo(SudoMsg::Bank(cw_multi_test::BankSudo::Mint { to_address: to.clone(), amount: to_coins(coins) }))
                    .map(conv)
                    .map_err(|e| format!("{:#}", e)),
                Entry::SendHelper { from, to, coins } => app
                    .send_tokens(Addr::unchecked(from), Addr::unchecked(to), &to_coins(coins))
                    .map(conv)
                    .map_err(|e| format!("{:#}", e)),
            }
        });
        let trace = take_trace();
        let (result, panicked) = match r {
            Ok(r) => (r, None),
            Err(p) => (Err(format!("panic: {}", p)), Some(p)),
        };
        let storage_unchanged = self.app.storage().data == before.data;
        let block_unchanged = self.app.block_info() == start.block;
        let final_storage = self.app.storage().clone();
        // observation must not leave traces in the script/trace channel
        let obs = self.observe();
        let _ = take_trace();
        RealOut { result, panicked, trace, storage_unchanged, block_unchanged, obs, helper_addr, final_storage, multi }
    }

    pub fn run_model(&self, start: &StartState, prog: &Program) -> ModelOut {
        self.run_model_flip(start, prog, None)
    }

    pub fn run_model_flip(&self, start: &StartState, prog: &Program, flip: Option<usize>) -> ModelOut {
        let mut m = ModelRun::new(prog, &self.info, start.mstate.clone(), start.mblock());
        m.flip_validity_of = flip;
        let result = m.run_top();
        ModelOut { result, trace: m.trace, st: m.st, created: m.created, multi: m.multi }
    }
}
