//! History explorations whose operations are tree programs: C09 (bank ledger, closure),
//! C12 (admin / migration, closure), C08 (storage isolation).

use rayon::prelude::*;
use super::cmp::Kind;
use super::driver::*;
use super::explore::*;
use super::families::*;
use super::model::MState;
use super::prog::*;
use super::puppet::take_trace;
use super::world::*;
use crate::common::*;
use cosmwasm_std::Addr;
use serde_json::{json, Value};
use stateright::{Checker, Model, Property};
use std::sync::Arc;

fn finish_explore(ctx: &Ctx, outs: &[(&str, &ExploreOut)], sampler_samples: Vec<Value>, bounds: Value, assumptions: Vec<String>, extra: Value) -> i32 {
    let mut states = 0;
    let mut transitions = 0;
    let mut replays = 0;
    let mut caps: Vec<String> = vec![];
    let mut st = TreeStats::default();
    let mut parts = vec![];
    for (name, o) in outs {
        states += o.states;
        transitions += o.transitions;
        replays += o.replays_validated;
        caps.extend(o.caps.iter().cloned());
        st = st.merge(o.stats.clone());
        let mut j = explore_json(o);
        j["explorer"] = json!(name);
        parts.push(j);
    }
    let coverage = json!({
        "states": states,
        "transitions": transitions,
        "traces_validated_against_impl": replays,
        "evaluations": transitions,
        "distinct_nontrivial": st.final_states.len(),
        "rule": "layered breadth-first search over raw chain states (full storage dump + block); one transition = snapshot restore + one operation on the real App and on the reference model, compared; every new state's witness path is re-executed from the start state without snapshots and must give the same raw dump (traces_validated_against_impl); distinct_nontrivial = distinct raw states reached by transitions",
        "exhaustive": caps.is_empty(),
        "explorations": parts,
        "bounds": bounds,
        "stats": stats_json(&st),
        "extra": extra,
        "caps_hit": caps,
        "samples": sampler_samples,
    });
    ctx.finish(coverage, assumptions)
}

fn sample_paths(o: &ExploreOut, alphabet: &[Program], n: usize) -> Vec<Value> {
    let mut v = vec![];
    let total = o.all_states.len();
    for i in 0..n.min(total) {
        let es = &o.all_states[(i * 7919 + total / 2) % total];
        v.push(json!({"history": es.path.iter().map(|oi| op_label(&alphabet[*oi as usize])).collect::<Vec<_>>()}));
    }
    if v.is_empty() {
        v.push(json!({"history": []}));
    }
    v
}

pub fn op_label(p: &Program) -> String {
    let short = |a: &str| if a.len() > 14 { format!("..{}", &a[a.len() - 6..]) } else { a.to_string() };
    let msg = |m: &Msg| match m {
        Msg::BankSend { to, coins } => format!("Send(to={}, {:?})", match to { Target::Addr(a) => short(a), t => format!("{:?}", t) }, coins),
        Msg::BankBurn { coins } => format!("Burn({:?})", coins),
        Msg::UpdateAdmin { target, admin } => format!("UpdateAdmin({:?} -> {})", target, short(admin)),
        Msg::ClearAdmin { target } => format!("ClearAdmin({:?})", target),
        Msg::Migrate { target, code, node } => format!("Migrate({:?}, code {}, node {})", target, code, node),
        Msg::Call { target, funds, node } => format!("Call({:?}, funds {:?}, node {})", target, funds, node),
        Msg::Delegate { validator, amount, .. } => format!("Delegate({}, {})", validator, amount),
        Msg::Instantiate { code, .. } => format!("Instantiate(code {})", code),
    };
    let tgt = |t: &Target| match t { Target::Addr(a) => short(a), t => format!("{:?}", t) };
    let _ = tgt;
    match &p.entry {
        Entry::User { sender, msg: m } => format!("{}: {}", short(sender), msg(m)),
        Entry::SudoMint { to, coins } => format!("sudo Mint(to={}, {:?})", short(to), coins),
        Entry::SendHelper { from, to, coins } => format!("send_tokens({} -> {}, {:?})", short(from), short(to), coins),
        Entry::Execute { sender, contract, funds } => format!(
            "{}: Execute({}, funds {:?}) node: fail={} writes={:?} subs=[{}]",
            short(sender), short(contract), funds, p.nodes[p.root].fail,
            p.nodes[p.root].writes.iter().map(|w| match w { WriteOp::Set(k, v) => format!("set {}={}", show(k), show(v)), WriteOp::Remove(k) => format!("remove {}", show(k)) }).collect::<Vec<_>>(),
            p.nodes[p.root].subs.iter().map(|s| format!("{:?}:{}", s.reply_on, msg(&s.msg))).collect::<Vec<_>>().join("; ")
        ),
        Entry::AccessorWrite { contract, write } => format!("contract_storage_mut({}).{}", short(contract), match write { WriteOp::Set(k, v) => format!("set({}, {})", show(k), show(v)), WriteOp::Remove(k) => format!("remove({})", show(k)) }),
        other => format!("{:?}", other),
    }
}

// =============================================================================================
// stateright cross-check of a closure

#[derive(Clone)]
struct SrState(Arc<StartState>);
impl PartialEq for SrState {
    fn eq(&self, o: &Self) -> bool {
        self.0.storage.data == o.0.storage.data && self.0.block == o.0.block
    }
}
impl Eq for SrState {}
impl std::hash::Hash for SrState {
    fn hash<H: std::hash::Hasher>(&self, h: &mut H) {
        self.0.storage.data.hash(h);
        self.0.block.height.hash(h);
    }
}
impl std::fmt::Debug for SrState {
    fn fmt(&self, f: &mut std::fmt::Formatter<'_>) -> std::fmt::Result {
        write!(f, "state({} raw keys)", self.0.storage.data.len())
    }
}

pub type EnabledFn = Arc<dyn Fn(&StartState, usize) -> bool + Send + Sync + 'static>;

struct SrModel {
    start: StartState,
    alphabet: Arc<Vec<Program>>,
    enabled: Option<EnabledFn>,
    ext: bool,
}

impl Model for SrModel {
    type State = SrState;
    type Action = usize;
    fn init_states(&self) -> Vec<Self::State> {
        vec![SrState(Arc::new(self.start.clone()))]
    }
    fn actions(&self, state: &Self::State, actions: &mut Vec<Self::Action>) {
        for i in 0..self.alphabet.len() {
            if self.enabled.as_ref().map_or(true, |en| en(&state.0, i)) {
                actions.push(i);
            }
        }
    }
    fn next_state(&self, last: &Self::State, action: Self::Action) -> Option<Self::State> {
        let p = std::rc::Rc::new(self.alphabet[action].clone());
        let ns = with_world(self.ext, |world| {
            let real = world.run_real(&last.0, &p);
            let model = world.run_model(&last.0, &p);
            let mut dummy = TreeStats::default();
            let mst = resync(world, &real, model.st, &mut dummy);
            StartState { name: String::new(), storage: real.final_storage, block: last.0.block.clone(), mstate: mst }
        });
        Some(SrState(Arc::new(ns)))
    }
    fn properties(&self) -> Vec<Property<Self>> {
        vec![Property::always("explore-everything", |_, _| true)]
    }
}

/// Explores the same closure with stateright's BFS; returns its unique state count.
fn stateright_states(start: &StartState, alphabet: &[Program], enabled: Option<EnabledFn>, ext: bool) -> u64 {
    let m = SrModel { start: start.clone(), alphabet: Arc::new(alphabet.to_vec()), enabled, ext };
    let checker = m.checker().threads(rayon::current_num_threads().max(1)).spawn_bfs().join();
    checker.unique_state_count() as u64
}

// =============================================================================================
// C09

fn supply_of(st: &MState, denom: &str) -> u128 {
    st.bank.values().map(|m| m.get(denom).copied().unwrap_or(0)).sum()
}

fn c09_invariant(ctx: &Ctx, world: &mut World, es: &ExpState) -> u64 {
    // queries agree with each other and with the model ledger
    world.app.set_block(es.s.block.clone());
    *world.app.storage_mut() = es.s.storage.clone();
    let mut n = 0u64;
    let accounts = world.info.watch.all_principals.clone();
    let mut sums: std::collections::BTreeMap<String, u128> = Default::default();
    for a in &accounts {
        #[allow(deprecated)]
        let all = match catch(|| world.app.wrap().query_all_balances(a.clone())) {
            Ok(Ok(v)) => v,
            other => {
                ctx.violation("c09:all-balances-query-failed", json!({"account": a, "result": format!("{:?}", other), "history": es.s.name}));
                continue;
            }
        };
        n += 1;
        let mut sorted = all.clone();
        sorted.sort_by(|x, y| x.denom.cmp(&y.denom));
        let mut dedup = sorted.clone();
        dedup.dedup_by(|x, y| x.denom == y.denom);
        if sorted != all || dedup.len() != all.len() || all.iter().any(|c| c.amount.is_zero()) {
            ctx.violation("c09:all-balances-not-normalised", json!({"account": a, "all_balances": format!("{:?}", all), "history": es.s.name}));
        }
        for d in ["x", "y", "z"] {
            n += 1;
            let single = world.app.wrap().query_balance(a.clone(), d).map(|c| c.amount.u128()).unwrap_or(u128::MAX);
            let from_all = all.iter().find(|c| c.denom == d).map(|c| c.amount.u128()).unwrap_or(0);
            let model = es.s.mstate.bank.get(a).and_then(|m| m.get(d)).copied().unwrap_or(0);
            if single != from_all || single != model {
                ctx.violation("c09:balance-queries-disagree", json!({"account": a, "denom": d, "Balance": single.to_string(), "AllBalances": from_all.to_string(), "model": model.to_string(), "history": es.s.name}));
            }
            *sums.entry(d.to_string()).or_default() += from_all;
        }
    }
    for d in ["x", "y", "z"] {
        n += 1;
        let supply = world.app.wrap().query_supply(d).map(|c| c.amount.u128()).unwrap_or(u128::MAX);
        let model = supply_of(&es.s.mstate, d);
        if supply != sums[d] || supply != model {
            ctx.violation("c09:supply-disagrees", json!({"denom": d, "Supply": supply.to_string(), "sum_of_balances": sums[d].to_string(), "model": model.to_string(), "history": es.s.name}));
        }
    }
    // denominations are compared as written: nobody ever held "X" or " x", so both report nothing
    for d in ["X", "Y", " x", "x "] {
        n += 1;
        let supply = world.app.wrap().query_supply(d).map(|c| c.amount.u128()).unwrap_or(u128::MAX);
        let held: u128 = accounts.iter().map(|a| world.app.wrap().query_balance(a.clone(), d).map(|c| c.amount.u128()).unwrap_or(u128::MAX)).fold(0u128, |x, y| x.saturating_add(y));
        if supply != 0 || held != 0 {
            ctx.violation("c09:another-spelling-of-a-denomination-reports-coins", json!({"denom": d, "Supply": supply.to_string(), "sum_of_Balance_answers": held.to_string(), "history": es.s.name}));
        }
    }
    let _ = take_trace();
    n
}

pub fn run_c09(ctx: &Ctx) -> i32 {
    RICH_AMOUNT.store(0, std::sync::atomic::Ordering::Relaxed);
    // (EntryPresence: the only contract calls of this alphabet are calls with attached funds; whether
    // the callee runs is decided by whether the transfer of those funds is accepted)
    // EntryQuery / EntryBalance: what the bank tells a contract (balances of all principals, total
    // supply of every denomination) in the middle of a transaction that has already moved coins
    let homes = |k: Kind| matches!(k, Kind::Outcome | Kind::State | Kind::StateOnErr | Kind::StateMissing | Kind::EntryPresence | Kind::EntryQuery | Kind::EntryBalance | Kind::Panic);
    let mut st = TreeStats::default();
    let (start, ad, third) = with_world(false, |world| {
        let ad = Addrs::of(world);
        let pre = world.pre_genesis();
        let inst = Program { entry: Entry::Instantiate { sender: ad.rich.clone(), code: 1, funds: vec![], label: "K".into(), admin: Some(ad.rich.clone()) }, root: 0, nodes: vec![Node::default()] };
        let mut s = advance(ctx, world, &pre, inst, "ledger-genesis", &homes, &mut st);
        s.name = "ledger-genesis".into();
        (s, ad, world.third.clone())
    });
    let cap: u128 = ctx.tier.pick(2, 3);
    let denoms: Vec<&str> = ctx.tier.pick(vec!["x", "y"], vec!["x", "y"]);
    let c = |d: &str, a: u128| (d.to_string(), a);
    let mut lists: Vec<Coins> = vec![vec![], vec![c("x", 0)], vec![c("x", 1)], vec![c("x", 2)], vec![c("x", 1), c("y", 1)], vec![c("x", 1), c("x", 1)], vec![c("x", 0), c("y", 1)], vec![c("x", 0), c("y", 0)], vec![c("x", 3)],
        // repeated denomination whose coins are affordable one by one but not together (balance 2)
        vec![c("x", 1), c("x", 2)], vec![c("x", 2), c("x", 2)]];
    if ctx.tier == Tier::Thorough {
        lists.push(vec![c("y", 2), c("x", 1), c("y", 1)]);
        lists.push(vec![c("z", 1)]);
    }
    let accounts = vec![ad.rich.clone(), ad.poor.clone(), third.clone(), ad.a.clone()];
    let mut alphabet: Vec<Program> = vec![];
    let mut mint_amounts: Vec<Option<Coins>> = vec![];
    for to in &accounts {
        for l in &lists {
            alphabet.push(Program { entry: Entry::SudoMint { to: to.clone(), coins: l.clone() }, root: 0, nodes: vec![] });
            mint_amounts.push(Some(l.clone()));
        }
    }
    for from in &accounts[..3] {
        for to in &accounts {
            for l in &lists {
                alphabet.push(Program { entry: Entry::User { sender: from.clone(), msg: Msg::BankSend { to: Target::Addr(to.clone()), coins: l.clone() } }, root: 0, nodes: vec![] });
                mint_amounts.push(None);
            }
        }
        for l in &lists {
            alphabet.push(Program { entry: Entry::User { sender: from.clone(), msg: Msg::BankBurn { coins: l.clone() } }, root: 0, nodes: vec![] });
            mint_amounts.push(None);
        }
    }
    // send_tokens helper (same path as execute, one list)
    alphabet.push(Program { entry: Entry::SendHelper { from: ad.rich.clone(), to: ad.poor.clone(), coins: vec![c("x", 1)] }, root: 0, nodes: vec![] });
    mint_amounts.push(None);
    // contract-initiated transfers and burns (sub-messages of K), and funds attached to a call
    for to in &accounts {
        for l in &lists {
            alphabet.push(Program {
                entry: Entry::Execute { sender: ad.poor.clone(), contract: ad.a.clone(), funds: vec![] },
                root: 0,
                nodes: vec![Node { subs: vec![Sub { id: 100, payload: vec![], reply_on: Mode::Never, msg: Msg::BankSend { to: Target::Addr(to.clone()), coins: l.clone() }, reply: None }], ..Default::default() }],
            });
            mint_amounts.push(None);
        }
    }
    for l in &lists {
        alphabet.push(Program {
            entry: Entry::Execute { sender: ad.poor.clone(), contract: ad.a.clone(), funds: vec![] },
            root: 0,
            nodes: vec![Node { subs: vec![Sub { id: 100, payload: vec![], reply_on: Mode::Never, msg: Msg::BankBurn { coins: l.clone() }, reply: None }], ..Default::default() }],
        });
        mint_amounts.push(None);
        alphabet.push(Program { entry: Entry::Execute { sender: ad.rich.clone(), contract: ad.a.clone(), funds: l.clone() }, root: 0, nodes: vec![Node::default()] });
        mint_amounts.push(None);
        // transfers and burns a contract initiates from its migrate entry point (paid by the contract,
        // not by the admin who asked for the migration)
        if l.len() <= 2 {
            for msg in [Msg::BankSend { to: Target::Addr(ad.poor.clone()), coins: l.clone() }, Msg::BankBurn { coins: l.clone() }] {
                alphabet.push(Program {
                    entry: Entry::Migrate { sender: ad.rich.clone(), contract: ad.a.clone(), code: 1 },
                    root: 0,
                    nodes: vec![Node { subs: vec![Sub { id: 100, payload: vec![], reply_on: Mode::Never, msg, reply: None }], ..Default::default() }],
                });
                mint_amounts.push(None);
            }
        }
        // funds attached to a call the contract makes to ITSELF (a transfer like any other: it must
        // be covered and carry a positive amount, and it changes no balance)
        alphabet.push(Program {
            entry: Entry::Execute { sender: ad.poor.clone(), contract: ad.a.clone(), funds: vec![] },
            root: 0,
            nodes: vec![Node { subs: vec![Sub { id: 100, payload: vec![], reply_on: Mode::Never, msg: Msg::Call { target: Target::SelfC, funds: l.clone(), node: 1 }, reply: None }], ..Default::default() }, Node::default()],
        });
        mint_amounts.push(None);
    }
    // two transfers initiated from the contract's sudo entry point (App::wasm_sudo): a refused second
    // one takes the first back, like everywhere else
    for (a1, a2) in [(1u128, 1u128), (1, 3), (2, 0), (1, 2)] {
        let sub = |id: u64, to: &String, a: u128| Sub { id, payload: vec![], reply_on: Mode::Never, msg: Msg::BankSend { to: Target::Addr(to.clone()), coins: vec![c("x", a)] }, reply: None };
        alphabet.push(Program { entry: Entry::WasmSudo { contract: ad.a.clone() }, root: 0, nodes: vec![Node { subs: vec![sub(100, &accounts[1], a1), sub(101, &accounts[2], a2)], ..Default::default() }] });
        mint_amounts.push(None);
    }
    // several bank messages in one transaction (execute_multi): all of them or none - a refused
    // later message takes the earlier transfers and burns back
    for from in &accounts[..2] {
        let send = |to: &String, a: u128| Msg::BankSend { to: Target::Addr(to.clone()), coins: vec![c("x", a)] };
        for msgs in [
            vec![send(&accounts[1], 1), send(&accounts[2], 1)],
            vec![send(&accounts[2], 1), send(&accounts[0], 2)],
            vec![Msg::BankBurn { coins: vec![c("x", 1)] }, send(&accounts[2], 2)],
            vec![send(&accounts[2], 1), Msg::BankBurn { coins: vec![c("x", 0)] }],
            vec![send(&accounts[0], 1), send(&accounts[1], 1), Msg::BankBurn { coins: vec![c("y", 1)] }],
        ] {
            alphabet.push(Program { entry: Entry::Multi { sender: from.clone(), msgs }, root: 0, nodes: vec![] });
            mint_amounts.push(None);
        }
    }
    let _ = denoms;
    let enabled: EnabledFn = Arc::new(move |s: &StartState, oi: usize| -> bool {
        match &mint_amounts[oi] {
            None => true,
            Some(l) => {
                let mut add: std::collections::BTreeMap<&str, u128> = Default::default();
                for (d, a) in l {
                    *add.entry(d.as_str()).or_default() += *a;
                }
                add.iter().all(|(d, a)| supply_of(&s.mstate, d) + *a <= cap)
            }
        }
    });
    let enabled_ref: &(dyn Fn(&StartState, usize) -> bool + Sync) = &*enabled;
    let ex = Explorer { ctx, name: "bank-ledger".into(), alphabet: alphabet.clone(), homes: &homes, max_depth: usize::MAX, max_states: 2_000_000, ext: true, invariant: Some(&c09_invariant), keep_states: false, enabled: Some(enabled_ref) };
    let out = ex.run(&start);
    // init_balance at genesis: the admin setter normalises like everything else
    let mut extra = json!({});
    with_world(false, |world| {
        let api_addr = Addr::unchecked(&ad.poor);
        for l in &lists {
            world.app.set_block(start.block.clone());
            *world.app.storage_mut() = start.storage.clone();
            let coins = super::puppet::to_coins(l);
            let r = catch(|| world.app.init_modules(|router, _, storage| router.bank.init_balance(storage, &api_addr, coins.clone())));
            let mut ms = start.mstate.clone();
            ms.bank.remove(&ad.poor);
            let mut m = std::collections::BTreeMap::new();
            for (d, a) in l {
                if *a > 0 {
                    *m.entry(d.clone()).or_insert(0u128) += *a;
                }
            }
            if !m.is_empty() {
                ms.bank.insert(ad.poor.clone(), m);
            }
            match r {
                Ok(Ok(())) => {
                    let es = ExpState { s: StartState { name: format!("init_balance({:?})", l), storage: world.app.storage().clone(), block: start.block.clone(), mstate: ms }, path: vec![], key: 0 };
                    c09_invariant(ctx, world, &es);
                }
                other => ctx.violation("c09:init-balance-failed", json!({"coins": l, "result": format!("{:?}", other.map(|r| r.map_err(|e| e.to_string())))})),
            }
        }
    });
    // the bank module handed its messages directly (App::init_modules gives the module and the
    // chain's own storage, with no transaction around the call, as stand-alone users of BankKeeper
    // have it): a refused operation "fails and changes nothing" there too, and an accepted one
    // conserves the coins
    let direct: u64 = with_world(false, |world| {
        use cw_multi_test::Module;
        let mut n = 0u64;
        let mut bases: Vec<(String, SnapStorage)> = vec![("ledger-genesis".into(), start.storage.clone())];
        {
            world.app.set_block(start.block.clone());
            *world.app.storage_mut() = start.storage.clone();
            let (r, p2) = (Addr::unchecked(&ad.rich), Addr::unchecked(&ad.poor));
            world.app.init_modules(|router, _, storage| {
                router.bank.init_balance(storage, &r, vec![cosmwasm_std::coin(2, "x"), cosmwasm_std::coin(1, "y")]).unwrap();
                router.bank.init_balance(storage, &p2, vec![cosmwasm_std::coin(1, "x")]).unwrap();
            });
            bases.push(("rich: 2x 1y, poor: 1x".into(), world.app.storage().clone()));
        }
        let totals = |world: &World| -> std::collections::BTreeMap<String, u128> {
            let st = world.observe_uncached();
            let mut t = std::collections::BTreeMap::new();
            for (who, m) in &st.bank {
                if who != SUPPLY {
                    for (d, a) in m {
                        *t.entry(d.clone()).or_insert(0u128) += *a;
                    }
                }
            }
            t
        };
        for (bname, base) in &bases {
            for from in &accounts[..3] {
                for l in &lists {
                    let coins = super::puppet::to_coins(l);
                    let mut msgs: Vec<(String, cosmwasm_std::BankMsg)> = accounts.iter().map(|to| (format!("send to {}", to), cosmwasm_std::BankMsg::Send { to_address: to.clone(), amount: coins.clone() })).collect();
                    msgs.push(("burn".into(), cosmwasm_std::BankMsg::Burn { amount: coins.clone() }));
                    for (what, msg) in msgs {
                        world.app.set_block(start.block.clone());
                        *world.app.storage_mut() = base.clone();
                        let before = totals(world);
                        let block = world.app.block_info();
                        let f2 = Addr::unchecked(from);
                        let is_burn = what == "burn";
                        let r = catch(|| world.app.init_modules(|router, api, storage| router.bank.execute(api, storage, router, &block, f2, msg)));
                        n += 1;
                        let cj = json!({"engine": "direct-bank", "base": bname, "sender": from, "operation": what, "coins": l});
                        match r {
                            Err(p) => ctx.violation("c09:Panic:direct-bank", json!({"case": cj, "panic": p})),
                            Ok(Err(e)) => {
                                if world.app.storage().data != base.data {
                                    ctx.violation("c09:StateOnErr:direct-bank", json!({"case": cj, "error": format!("{:#}", e), "detail": "the refused bank operation changed the ledger", "totals_before": before, "totals_after": totals(world)}));
                                }
                            }
                            Ok(Ok(_)) => {
                                let after = totals(world);
                                let mut want = before.clone();
                                if is_burn {
                                    for (d, a) in l {
                                        let e = want.entry(d.clone()).or_insert(0u128);
                                        *e = e.saturating_sub(*a);
                                    }
                                    want.retain(|_, a| *a > 0);
                                }
                                if after != want {
                                    ctx.violation("c09:State:direct-bank", json!({"case": cj, "detail": "coins not conserved", "totals_before": before, "totals_after": after, "expected": want}));
                                }
                            }
                        }
                    }
                }
            }
        }
        n
    });
    extra["operations_handed_to_the_bank_module_directly"] = json!(direct);
    // engine self-check: second explorer (stateright) must see the same number of states
    if out.closed && out.caps.is_empty() && ctx.vio_count.load(std::sync::atomic::Ordering::Relaxed) == 0 {
        let sr = stateright_states(&start, &alphabet, Some(enabled.clone()), false);
        if sr != out.states {
            machinery_error(&format!("C09: stateright explored {} unique states, own explorer {}", sr, out.states));
        }
        extra["stateright_unique_states"] = json!(sr);
    }
    let samples = sample_paths(&out, &alphabet, 3);
    finish_explore(
        ctx,
        &[("bank-ledger", &out)],
        samples,
        json!({"supply_cap_per_denom": cap.to_string(), "operations": alphabet.len(), "coin_lists": lists, "accounts": ["a (rich)", "b (poor)", "c (never seen)", "contract K"], "closure": "explored to the fixpoint under the supply cap"}),
        vec!["amounts near 2^128 are excluded by the statement".into(), "the ledger alphabet uses denominations x, y (thorough: also z)".into()],
        extra,
    )
}

// =============================================================================================
// C12

pub fn run_c12(ctx: &Ctx) -> i32 {
    let homes = |k: Kind| matches!(k, Kind::Outcome | Kind::State | Kind::StateOnErr | Kind::StateMissing | Kind::CodeTag | Kind::EntryPresence | Kind::EntryStore | Kind::Panic);
    let mut st = TreeStats::default();
    let starts = build_starts(ctx, &homes, &mut st);
    let ad = with_world(false, |w| Addrs::of(w));
    let mut alphabet: Vec<Program> = vec![];
    let mig_node = |code: u64, fail: bool| Node { writes: vec![WriteOp::Set(b"mig".to_vec(), format!("{}", code).into_bytes())], fail, data: Some(b"m".to_vec()), ..Default::default() };
    // a fourth contract D whose admin is a name no address codec accepts ("owner": admins are
    // recorded as given at instantiation); a stranger with such a name ("random") tries as well
    let start12 = with_world(false, |world| {
        let p = Program { entry: Entry::Instantiate { sender: ad.rich.clone(), code: 1, funds: vec![], label: "d".into(), admin: Some("owner".into()) }, root: 0, nodes: vec![Node::default()] };
        advance(ctx, world, &starts.genesis, p, "genesis+D(admin: owner)", &homes, &mut st)
    });
    let d_addr = start12.mstate.contracts.keys().find(|k| ![&ad.a, &ad.b, &ad.c].contains(k)).cloned();
    if let Some(d) = &d_addr {
        for s in ["owner", "random"] {
            alphabet.push(Program { entry: Entry::User { sender: s.to_string(), msg: Msg::UpdateAdmin { target: Target::Addr(d.clone()), admin: ad.poor.clone() } }, root: 0, nodes: vec![] });
            alphabet.push(Program { entry: Entry::User { sender: s.to_string(), msg: Msg::ClearAdmin { target: Target::Addr(d.clone()) } }, root: 0, nodes: vec![] });
            alphabet.push(Program { entry: Entry::User { sender: s.to_string(), msg: Msg::Migrate { target: Target::Addr(d.clone()), code: 2, node: 0 } }, root: 0, nodes: vec![mig_node(2, false)] });
        }
        alphabet.push(Program { entry: Entry::User { sender: ad.poor.clone(), msg: Msg::ClearAdmin { target: Target::Addr(d.clone()) } }, root: 0, nodes: vec![] });
    } else {
        machinery_error("C12: the fourth contract was not created");
    }
    // the admin asks for a new admin that is no address at all (a plain name, the empty string, an
    // upper-cased spelling): the request fails and everything stays as it is
    for bad in ["not-an-address".to_string(), String::new(), ad.poor.to_uppercase()] {
        alphabet.push(Program { entry: Entry::User { sender: ad.rich.clone(), msg: Msg::UpdateAdmin { target: Target::Addr(ad.a.clone()), admin: bad.clone() } }, root: 0, nodes: vec![] });
    }
    // the sender with the empty address (an address is a string; "no admin" must not compare equal to it)
    for t in [ad.c.clone(), ad.a.clone()] {
        alphabet.push(Program { entry: Entry::User { sender: String::new(), msg: Msg::UpdateAdmin { target: Target::Addr(t.clone()), admin: ad.poor.clone() } }, root: 0, nodes: vec![] });
        alphabet.push(Program { entry: Entry::User { sender: String::new(), msg: Msg::ClearAdmin { target: Target::Addr(t.clone()) } }, root: 0, nodes: vec![] });
        alphabet.push(Program { entry: Entry::User { sender: String::new(), msg: Msg::Migrate { target: Target::Addr(t.clone()), code: 2, node: 0 } }, root: 0, nodes: vec![mig_node(2, false)] });
    }
    let targets = [ad.a.clone(), ad.b.clone(), ad.c.clone()];
    let senders = [ad.rich.clone(), ad.poor.clone()];
    let admins = [ad.rich.clone(), ad.poor.clone(), ad.a.clone()];
    for t in &targets {
        for s in &senders {
            for to in &admins {
                alphabet.push(Program { entry: Entry::User { sender: s.clone(), msg: Msg::UpdateAdmin { target: Target::Addr(t.clone()), admin: to.clone() } }, root: 0, nodes: vec![] });
            }
            alphabet.push(Program { entry: Entry::User { sender: s.clone(), msg: Msg::ClearAdmin { target: Target::Addr(t.clone()) } }, root: 0, nodes: vec![] });
            // (code 3 does not exist; code 9 exists but was built without a migrate entry point: nothing to run)
            for code in [1u64, 2, 3, 9] {
                for fail in [false, true] {
                    if (code == 3 || code == 9) && fail {
                        continue;
                    }
                    alphabet.push(Program { entry: Entry::User { sender: s.clone(), msg: Msg::Migrate { target: Target::Addr(t.clone()), code, node: 0 } }, root: 0, nodes: vec![mig_node(code, fail)] });
                }
            }
        }
        // a migration whose migrate entry point itself emits admin messages: they are sent by the
        // migrated CONTRACT (never by the admin who requested the migration)
        for s in &senders {
            for (mi, sub) in [
                Msg::UpdateAdmin { target: Target::SelfC, admin: ad.poor.clone() },
                Msg::ClearAdmin { target: Target::SelfC },
                Msg::UpdateAdmin { target: Target::Other, admin: ad.poor.clone() },
                Msg::Migrate { target: Target::Other, code: 2, node: 1 },
            ]
            .into_iter()
            .enumerate()
            {
                let mut root = mig_node(2, false);
                root.subs.push(Sub { id: 100, payload: vec![], reply_on: Mode::Never, msg: sub, reply: None });
                let mut nodes = vec![root];
                if mi == 3 {
                    nodes.push(mig_node(2, false));
                }
                alphabet.push(Program { entry: Entry::User { sender: s.clone(), msg: Msg::Migrate { target: Target::Addr(t.clone()), code: 2, node: 0 } }, root: 0, nodes });
            }
        }
        // plain execute: shows which code serves the contract
        alphabet.push(Program { entry: Entry::Execute { sender: ad.poor.clone(), contract: t.clone(), funds: vec![] }, root: 0, nodes: vec![Node { writes: vec![WriteOp::Set(b"touched".to_vec(), b"1".to_vec())], ..Default::default() }] });
        alphabet.push(Program { entry: Entry::WasmSudo { contract: t.clone() }, root: 0, nodes: vec![Node::default()] });
    }
    // a contract acting as admin through sub-messages: A (and B) send admin messages about their ring successor
    for via in [ad.a.clone(), ad.b.clone()] {
        for mode in [Mode::Never, Mode::Error] {
            let mut msgs: Vec<(Msg, Option<Node>)> = vec![];
            for to in &admins {
                msgs.push((Msg::UpdateAdmin { target: Target::Other, admin: to.clone() }, None));
            }
            msgs.push((Msg::ClearAdmin { target: Target::Other }, None));
            for code in [1u64, 2] {
                msgs.push((Msg::Migrate { target: Target::Other, code, node: 1 }, Some(mig_node(code, false))));
            }
            msgs.push((Msg::Migrate { target: Target::Other, code: 2, node: 1 }, Some(mig_node(2, true))));
            msgs.push((Msg::Migrate { target: Target::SelfC, code: 2, node: 1 }, Some(mig_node(2, false))));
            for (m, child) in msgs {
                let mut nodes = vec![Node::default()];
                if let Some(c) = child {
                    nodes.push(c);
                }
                let reply = if mode == Mode::Never {
                    None
                } else {
                    nodes.push(Node::default());
                    Some(nodes.len() - 1)
                };
                nodes[0].subs.push(Sub { id: 100, payload: vec![], reply_on: mode, msg: m, reply });
                alphabet.push(Program { entry: Entry::Execute { sender: ad.poor.clone(), contract: via.clone(), funds: vec![] }, root: 0, nodes });
            }
        }
    }
    // a contract that is its own admin migrates itself, and the migrate entry point of the new code
    // changes the contract's own admin / migrates it once more (all legitimately: sent by the
    // contract, which is the admin). What the inner messages did must still hold when the outer
    // migration has finished.
    for via in [ad.a.clone(), ad.b.clone()] {
        for (ii, inner) in [
            Msg::ClearAdmin { target: Target::SelfC },
            Msg::UpdateAdmin { target: Target::SelfC, admin: ad.poor.clone() },
            Msg::Migrate { target: Target::SelfC, code: 1, node: 2 },
        ]
        .into_iter()
        .enumerate()
        {
            let mut handler = mig_node(2, false);
            handler.subs.push(Sub { id: 101, payload: vec![], reply_on: Mode::Never, msg: inner, reply: None });
            let mut nodes = vec![Node::default(), handler];
            if ii == 2 {
                nodes.push(mig_node(1, false));
            }
            nodes[0].subs.push(Sub { id: 100, payload: vec![], reply_on: Mode::Never, msg: Msg::Migrate { target: Target::SelfC, code: 2, node: 1 }, reply: None });
            alphabet.push(Program { entry: Entry::Execute { sender: ad.poor.clone(), contract: via.clone(), funds: vec![] }, root: 0, nodes });
        }
    }
    let ex = Explorer { ctx, name: "admin-migration".into(), alphabet: alphabet.clone(), homes: &homes, max_depth: ctx.tier.pick(3, usize::MAX), max_states: ctx.tier.pick(60_000, 1_000_000), ext: false, invariant: None, keep_states: false, enabled: None };
    let out = ex.run(&start12);
    let mut extra = json!({});
    if out.closed && out.caps.is_empty() && out.states < 200_000 && ctx.vio_count.load(std::sync::atomic::Ordering::Relaxed) == 0 {
        let sr = stateright_states(&start12, &alphabet, None, false);
        if sr != out.states {
            machinery_error(&format!("C12: stateright explored {} unique states, own explorer {}", sr, out.states));
        }
        extra["stateright_unique_states"] = json!(sr);
    }
    // the same refusals when the message is handed to the router directly (App::init_modules gives
    // the router and the chain's own storage, with no transaction around the call): a refused
    // Migrate / UpdateAdmin / ClearAdmin leaves every byte as it was there too
    let direct: u64 = with_world(false, |world| {
        use cw_multi_test::CosmosRouter;
        let mut n = 0u64;
        let mut targets = vec![ad.a.clone(), ad.b.clone(), ad.c.clone()];
        if let Some(d) = &d_addr {
            targets.push(d.clone());
        }
        for t in &targets {
            for sender in [ad.poor.clone(), "random".to_string(), String::new(), ad.c.clone()] {
                let msgs: Vec<(&str, cosmwasm_std::CosmosMsg)> = vec![
                    ("migrate", cosmwasm_std::WasmMsg::Migrate { contract_addr: t.clone(), new_code_id: 2, msg: cosmwasm_std::to_json_binary(&super::puppet::NodeMsg { n: 0 }).unwrap() }.into()),
                    ("update-admin", cosmwasm_std::WasmMsg::UpdateAdmin { contract_addr: t.clone(), admin: ad.poor.clone() }.into()),
                    ("clear-admin", cosmwasm_std::WasmMsg::ClearAdmin { contract_addr: t.clone() }.into()),
                ];
                for (what, msg) in msgs {
                    world.app.set_block(start12.block.clone());
                    *world.app.storage_mut() = start12.storage.clone();
                    let admin = start12.mstate.contracts.get(t).and_then(|c| c.admin.clone());
                    if admin.as_deref() == Some(sender.as_str()) {
                        continue;
                    }
                    super::puppet::set_script(std::rc::Rc::new(Program { entry: Entry::WasmSudo { contract: String::new() }, root: 0, nodes: vec![mig_node(2, false)] }));
                    let block = world.app.block_info();
                    let s2 = sender.clone();
                    let r = catch(|| world.app.init_modules(|router, api, storage| router.execute(api, storage, &block, Addr::unchecked(s2), msg)));
                    n += 1;
                    let changed = world.app.storage().data != start12.storage.data;
                    match r {
                        Ok(Err(_)) if !changed => {}
                        Ok(Err(e)) => ctx.violation("c12:StateOnErr:direct-router", json!({"engine": "direct-router", "what": what, "target": t, "sender": sender, "error": format!("{:#}", e), "detail": "the refused message changed the chain state"})),
                        Ok(Ok(_)) => ctx.violation("c12:Outcome:direct-router", json!({"engine": "direct-router", "what": what, "target": t, "sender": sender, "detail": "accepted although the sender is not the admin"})),
                        Err(p) => ctx.violation("c12:Panic:direct-router", json!({"engine": "direct-router", "what": what, "target": t, "sender": sender, "panic": p})),
                    }
                }
            }
        }
        n
    });
    let samples = sample_paths(&out, &alphabet, 3);
    extra["attempts_by_non_admins_handed_to_the_router_directly"] = json!(direct);
    extra["admin_changes_under_an_api_that_normalises"] = json!(super::envelope::normalising_api_admin_stage(ctx));
    finish_explore(
        ctx,
        &[("admin-migration", &out)],
        samples,
        json!({"operations": alphabet.len(), "contracts": ["A (admin: creator)", "B (admin: contract A)", "C (no admin)", "D (admin: the name 'owner', which no address codec accepts)"], "senders": ["creator/admin", "stranger", "contract A or B via sub-message (reply_on Never and Error)", "'owner' and 'random' (D only)", "the empty address (A and C)"],
               "migrate_targets": ["code 1", "code 2", "missing code 3"], "migrate_entry": ["succeeds", "fails"]}),
        vec!["admin candidates are {creator, stranger, contract A}".into()],
        extra,
    )
}

// =============================================================================================
// C08

fn c08_invariant_with(keys: &[Vec<u8>]) -> impl Fn(&Ctx, &mut World, &ExpState) -> u64 + Sync + '_ {
    move |ctx: &Ctx, world: &mut World, es: &ExpState| {
        world.app.set_block(es.s.block.clone());
        *world.app.storage_mut() = es.s.storage.clone();
        let mut n = 0u64;
        let ring = world.info.watch.ring.clone();
        for c in &ring {
            let ad = Addr::unchecked(c);
            let model = es.s.mstate.contracts.get(c).map(|m| m.store.clone()).unwrap_or_default();
            let dump: super::model::Map = world.app.dump_wasm_raw(&ad).into_iter().collect();
            n += 1;
            if dump != model {
                ctx.violation("c08:dump-differs-from-model", json!({"contract": c, "history": es.s.name, "dump": dump.iter().map(|(k, v)| format!("{}={}", show(k), show(v))).collect::<Vec<_>>(), "model": model.iter().map(|(k, v)| format!("{}={}", show(k), show(v))).collect::<Vec<_>>()}));
            }
            let acc_scan: super::model::Map = world.app.contract_storage(&ad).range(None, None, cosmwasm_std::Order::Ascending).collect();
            n += 1;
            if acc_scan != model {
                ctx.violation("c08:accessor-scan-differs-from-model", json!({"contract": c, "history": es.s.name}));
            }
            // the same data in the other direction (read-only accessor, descending)
            let acc_desc: Vec<(Vec<u8>, Vec<u8>)> = world.app.contract_storage(&ad).range(None, None, cosmwasm_std::Order::Descending).collect();
            let mut want_desc: Vec<(Vec<u8>, Vec<u8>)> = model.iter().map(|(k, v)| (k.clone(), v.clone())).collect();
            want_desc.reverse();
            n += 1;
            if acc_desc != want_desc {
                ctx.violation("c08:accessor-scan-differs-from-model:descending", json!({"contract": c, "history": es.s.name, "got": acc_desc.iter().map(|(k, _)| show(k)).collect::<Vec<_>>(), "want": want_desc.iter().map(|(k, _)| show(k)).collect::<Vec<_>>()}));
            }
            // keys-only / values-only iteration of the accessor
            let acc_keys: Vec<Vec<u8>> = world.app.contract_storage(&ad).range_keys(None, None, cosmwasm_std::Order::Ascending).collect();
            let acc_vals: Vec<Vec<u8>> = world.app.contract_storage(&ad).range_values(None, None, cosmwasm_std::Order::Descending).collect();
            n += 1;
            if acc_keys != model.keys().cloned().collect::<Vec<_>>() || acc_vals != want_desc.iter().map(|(_, v)| v.clone()).collect::<Vec<_>>() {
                ctx.violation("c08:accessor-scan-differs-from-model:keys-or-values-only", json!({"contract": c, "history": es.s.name, "keys": acc_keys.iter().map(|k| show(k)).collect::<Vec<_>>(), "values_descending": acc_vals.iter().map(|k| show(k)).collect::<Vec<_>>()}));
            }
            let mut probe: Vec<Vec<u8>> = keys.to_vec();
            probe.extend(model.keys().cloned());
            for k in &probe {
                n += 1;
                let want = model.get(k).cloned();
                let acc = world.app.contract_storage(&ad).get(k);
                let raw = world.app.wrap().query_wasm_raw(c.clone(), k.clone()).ok().flatten().filter(|v| !v.is_empty());
                if acc != want || raw != want {
                    ctx.violation("c08:views-disagree", json!({"contract": c, "key": show(k), "history": es.s.name, "model": want.map(|v| show(&v)), "contract_storage": acc.map(|v| show(&v)), "raw_query": raw.map(|v| show(&v))}));
                }
            }
        }
        let _ = take_trace();
        n
    }
}

// ---- C08, second world: contract addresses that are prefixes of each other ("c", "cc", "ccc")

/// Accepts every string as an address and NORMALISES it by trimming blanks (an Api may accept
/// several spellings of one address; what it returns is the address).
struct PermissiveApi;
impl cosmwasm_std::Api for PermissiveApi {
    fn addr_validate(&self, human: &str) -> cosmwasm_std::StdResult<Addr> {
        Ok(Addr::unchecked(human.trim()))
    }
    fn addr_canonicalize(&self, human: &str) -> cosmwasm_std::StdResult<cosmwasm_std::CanonicalAddr> {
        Ok(human.as_bytes().to_vec().into())
    }
    fn addr_humanize(&self, canonical: &cosmwasm_std::CanonicalAddr) -> cosmwasm_std::StdResult<Addr> {
        Ok(Addr::unchecked(String::from_utf8_lossy(canonical.as_slice()).to_string()))
    }
    fn secp256k1_verify(&self, _: &[u8], _: &[u8], _: &[u8]) -> Result<bool, cosmwasm_std::VerificationError> {
        Ok(false)
    }
    fn secp256k1_recover_pubkey(&self, _: &[u8], _: &[u8], _: u8) -> Result<Vec<u8>, cosmwasm_std::RecoverPubkeyError> {
        Ok(vec![])
    }
    fn ed25519_verify(&self, _: &[u8], _: &[u8], _: &[u8]) -> Result<bool, cosmwasm_std::VerificationError> {
        Ok(false)
    }
    fn ed25519_batch_verify(&self, _: &[&[u8]], _: &[&[u8]], _: &[&[u8]]) -> Result<bool, cosmwasm_std::VerificationError> {
        Ok(false)
    }
    fn debug(&self, _: &str) {}
}

/// addresses that are prefixes of each other (c, cc, ccc), that differ only in letter case
/// (c / C, cc / cC) and that are neighbours in byte order (c / d: the key space of "c" ends
/// exactly where that of "d" begins)
const PREFIX_WORLD_ADDRS: [&str; 6] = ["c", "cc", "ccc", "C", "cC", "d"];

struct PrefixAddresses;
impl cw_multi_test::AddressGenerator for PrefixAddresses {
    fn contract_address(&self, _api: &dyn cosmwasm_std::Api, _storage: &mut dyn cosmwasm_std::Storage, _code_id: u64, instance_id: u64) -> cw_multi_test::error::AnyResult<Addr> {
        Ok(Addr::unchecked(PREFIX_WORLD_ADDRS[instance_id as usize % PREFIX_WORLD_ADDRS.len()]))
    }
}

/// Every sequence of <= depth writes by contracts "c", "cc", "ccc" with keys that spell each
/// other's address suffixes; after each write all three dumps, raw queries and accessor scans
/// must equal a map-per-contract model.
fn c08_prefix_world(ctx: &Ctx, depth: usize) -> (u64, u64) {
    use cw_multi_test::{AppBuilder, Executor, WasmKeeper};
    type PApp = cw_multi_test::App<cw_multi_test::BankKeeper, PermissiveApi, SnapStorage>;
    let build = || -> PApp {
        let mut app: PApp = AppBuilder::new()
            .with_api(PermissiveApi)
            .with_storage(SnapStorage::new())
            .with_wasm(WasmKeeper::new().with_address_generator(PrefixAddresses))
            .build(cw_multi_test::no_init);
        let code = app.store_code(Box::new(super::puppet::Puppet { tag: 1 }));
        super::puppet::set_script(std::rc::Rc::new(Program { entry: Entry::WasmSudo { contract: String::new() }, root: 0, nodes: vec![Node::default()] }));
        for i in 0..PREFIX_WORLD_ADDRS.len() {
            let a = app.instantiate_contract(code, Addr::unchecked("user"), &super::puppet::NodeMsg { n: 0 }, &[], "p", None).unwrap();
            assert_eq!(a.as_str(), PREFIX_WORLD_ADDRS[i]);
        }
        app
    };
    let contracts = PREFIX_WORLD_ADDRS;
    let keys: Vec<&[u8]> = vec![b"k", b"ck", b"c", b"", b"cck", b"/k"];
    let mut ops: Vec<(usize, usize, bool)> = vec![];
    for c in 0..contracts.len() {
        for k in 0..keys.len() {
            ops.push((c, k, true));
            ops.push((c, k, false));
        }
    }
    super::puppet::set_watch(super::puppet::Watch { ring: contracts.iter().map(|c| c.to_string()).collect(), ..Default::default() });
    let mut seqs: Vec<Vec<usize>> = vec![vec![]];
    let mut frontier: Vec<Vec<usize>> = vec![vec![]];
    for _ in 0..depth {
        let mut next = vec![];
        for f in &frontier {
            for o in 0..=ops.len() {
                // index ops.len() = instantiation of a further contract
                let mut n = f.clone();
                n.push(o);
                next.push(n);
            }
        }
        seqs.extend(next.iter().cloned());
        frontier = next;
    }
    let transitions_total = std::sync::atomic::AtomicU64::new(0);
    seqs.par_iter().for_each(|sq| {
        let mut transitions = 0u64;
        super::puppet::set_watch(super::puppet::Watch { ring: contracts.iter().map(|c| c.to_string()).collect(), ..Default::default() });
        let mut app = build();
        let mut model: Vec<super::model::Map> = vec![Default::default(); contracts.len()];
        for oi in sq {
            if *oi == ops.len() {
                // a newcomer: one more instantiation, for which the generator has only occupied
                // addresses left. Rejected or not, the code running for it must not see anything
                // the live contracts wrote, and their data must stay what it is (checked below
                // by the next operation's / the final comparison of all views).
                super::puppet::set_script(std::rc::Rc::new(Program { entry: Entry::WasmSudo { contract: String::new() }, root: 0, nodes: vec![Node { writes: vec![WriteOp::Set(b"k".to_vec(), b"intruder".to_vec())], ..Default::default() }] }));
                let r = catch(|| app.instantiate_contract(1, Addr::unchecked("user2"), &super::puppet::NodeMsg { n: 0 }, &[], "newcomer", None));
                let trace = take_trace();
                transitions += 1;
                if let Some(rec) = trace.first() {
                    if !rec.own_store.is_empty() {
                        ctx.violation("c08:prefix-addresses:new-contract-sees-existing-data", json!({"engine": "prefix-world", "ops": sq.iter().map(|o| if *o == ops.len() { "instantiate".to_string() } else { format!("{:?}", ops[*o]) }).collect::<Vec<_>>(), "address": rec.contract, "seen": rec.own_store.iter().map(|(k, v)| format!("{}={}", show(k), show(v))).collect::<Vec<_>>()}));
                    }
                }
                if let Ok(Ok(a)) = &r {
                    if let Some(ci) = contracts.iter().position(|c| *c == a.as_str()) {
                        ctx.violation("c08:prefix-addresses:two-contracts-share-one-key-space", json!({"engine": "prefix-world", "address": contracts[ci], "what": "an instantiation was accepted at the address of a live contract: both run on one key space"}));
                    }
                }
                for (ci, cn) in contracts.iter().enumerate() {
                    let dump: super::model::Map = app.dump_wasm_raw(&Addr::unchecked(*cn)).into_iter().collect();
                    if dump != model[ci] {
                        ctx.violation("c08:prefix-addresses:views-differ-from-model", json!({"engine": "prefix-world", "observed_contract": cn, "after": "instantiation of a further contract", "dump": dump.iter().map(|(k, v)| format!("{}={}", show(k), show(v))).collect::<Vec<_>>(), "model": model[ci].iter().map(|(k, v)| format!("{}={}", show(k), show(v))).collect::<Vec<_>>()}));
                    }
                }
                continue;
            }
            let (c, k, set) = ops[*oi];
            let w = if set { WriteOp::Set(keys[k].to_vec(), format!("v{}", c).into_bytes()) } else { WriteOp::Remove(keys[k].to_vec()) };
            // one transaction: the write, then every contract (the writer too) looks at its own key
            // space while the write is still pending in the transaction's cache
            super::puppet::set_script(std::rc::Rc::new(Program { entry: Entry::WasmSudo { contract: String::new() }, root: 0, nodes: vec![Node { writes: vec![w.clone()], ..Default::default() }, Node::default()] }));
            let mut msgs: Vec<cosmwasm_std::CosmosMsg> = vec![cosmwasm_std::WasmMsg::Execute { contract_addr: contracts[c].to_string(), msg: cosmwasm_std::to_json_binary(&super::puppet::NodeMsg { n: 0 }).unwrap(), funds: vec![] }.into()];
            for cn in contracts.iter() {
                msgs.push(cosmwasm_std::WasmMsg::Execute { contract_addr: cn.to_string(), msg: cosmwasm_std::to_json_binary(&super::puppet::NodeMsg { n: 1 }).unwrap(), funds: vec![] }.into());
            }
            let r = catch(|| app.execute_multi(Addr::unchecked("user"), msgs).map(|mut v| v.remove(0)));
            let trace = take_trace();
            transitions += 1;
            // inside the transaction, after the write: every contract sees exactly its own model map
            let mut after = model.clone();
            match &w {
                WriteOp::Set(k, v) => {
                    after[c].insert(k.clone(), v.clone());
                }
                WriteOp::Remove(k) => {
                    after[c].remove(k);
                }
            }
            for rec in trace.iter().skip(1) {
                if let Some(ci) = contracts.iter().position(|x| *x == rec.contract) {
                    let own: super::model::Map = rec.own_store.iter().cloned().collect();
                    if own != after[ci] {
                        ctx.violation("c08:prefix-addresses:own-view-inside-transaction-differs", json!({"engine": "prefix-world", "contract": contracts[ci], "ops": sq.iter().map(|o| if *o == ops.len() { "instantiate".to_string() } else { format!("{:?}", ops[*o]) }).collect::<Vec<_>>(),
                            "seen": own.iter().map(|(k, v)| format!("{}={}", show(k), show(v))).collect::<Vec<_>>(), "model": after[ci].iter().map(|(k, v)| format!("{}={}", show(k), show(v))).collect::<Vec<_>>()}));
                    }
                }
            }
            if trace.len() != 1 + contracts.len() && matches!(r, Ok(Ok(_))) {
                ctx.violation("c08:prefix-addresses:observer-did-not-run", json!({"engine": "prefix-world", "invocations": trace.len()}));
            }
            // what the contract itself saw at entry is its model map before the write
            if let Some(rec) = trace.first() {
                let own: super::model::Map = rec.own_store.iter().cloned().collect();
                if own != model[c] {
                    ctx.violation("c08:prefix-addresses:own-view-differs", json!({"engine": "prefix-world", "contract": contracts[c], "ops": sq.iter().map(|o| if *o == ops.len() { "instantiate".to_string() } else { format!("{:?}", ops[*o]) }).collect::<Vec<_>>()}));
                }
            }
            match w {
                WriteOp::Set(k, v) => {
                    model[c].insert(k, v);
                }
                WriteOp::Remove(k) => {
                    model[c].remove(&k);
                }
            }
            if !matches!(r, Ok(Ok(_))) {
                ctx.violation("c08:prefix-addresses:write-failed", json!({"engine": "prefix-world", "contract": contracts[c], "result": format!("{:?}", r.map(|x| x.map(|_| ()).map_err(|e| e.to_string())))}));
                break;
            }
            for (ci, cn) in contracts.iter().enumerate() {
                let ad = Addr::unchecked(*cn);
                let dump: super::model::Map = app.dump_wasm_raw(&ad).into_iter().collect();
                let scan: super::model::Map = app.contract_storage(&ad).range(None, None, cosmwasm_std::Order::Ascending).collect();
                let mut raw_ok = true;
                for k in &keys {
                    let raw = app.wrap().query_wasm_raw(cn.to_string(), k.to_vec()).ok().flatten().filter(|v| !v.is_empty());
                    if raw != model[ci].get(*k).cloned() {
                        raw_ok = false;
                    }
                    // the same contract named by another spelling the Api accepts (blanks around it):
                    // the Api says which address that is, and the query reads that address's store
                    let raw_up = app.wrap().query_wasm_raw(format!(" {} ", cn), k.to_vec()).ok().flatten().filter(|v| !v.is_empty());
                    if raw_up != model[ci].get(*k).cloned() {
                        raw_ok = false;
                    }
                }
                if dump != model[ci] || scan != model[ci] || !raw_ok {
                    ctx.violation(
                        "c08:prefix-addresses:views-differ-from-model",
                        json!({"engine": "prefix-world", "observed_contract": cn, "ops": sq.iter().map(|o| { if *o == ops.len() { return "instantiate a further contract".to_string(); } let (c, k, s) = ops[*o]; format!("{} {} {}", contracts[c], if s { "set" } else { "remove" }, show(keys[k])) }).collect::<Vec<_>>(),
                               "dump": dump.iter().map(|(k, v)| format!("{}={}", show(k), show(v))).collect::<Vec<_>>(), "model": model[ci].iter().map(|(k, v)| format!("{}={}", show(k), show(v))).collect::<Vec<_>>(), "raw_queries_agree": raw_ok}),
                    );
                }
            }
        }
        transitions_total.fetch_add(transitions, std::sync::atomic::Ordering::Relaxed);
    });
    (seqs.len() as u64, transitions_total.load(std::sync::atomic::Ordering::Relaxed))
}

pub fn run_c08(ctx: &Ctx) -> i32 {
    let homes = |k: Kind| matches!(k, Kind::State | Kind::StateMissing | Kind::EntryStore | Kind::EntryQuery | Kind::StateOnErr | Kind::Panic);
    let mut st = TreeStats::default();
    let starts = build_starts(ctx, &homes, &mut st);
    let ad = with_world(false, |w| Addrs::of(w));
    // a start state in which bank, staking and the registry all hold entries of the ring contracts
    let start = with_world(false, |world| {
        let p = Program { entry: Entry::User { sender: ad.rich.clone(), msg: Msg::Delegate { validator: VALIDATOR.into(), denom: "TOKEN".into(), amount: 2 } }, root: 0, nodes: vec![] };
        advance(ctx, world, &starts.genesis, p, "genesis+delegation", &homes, &mut st)
    });
    // adversarial keys harvested from the run itself: every raw key of the chain state (other
    // contracts' entries, bank balances, staking entries, the contract registry), and the
    // prefixes / suffixes of those keys at every 2-byte length-prefix boundary
    let mut adv: Vec<Vec<u8>> = vec![];
    for k in start.storage.data.keys() {
        adv.push(k.clone());
        let mut i = 0usize;
        while i + 2 <= k.len() {
            let l = ((k[i] as usize) << 8) | k[i + 1] as usize;
            if i + 2 + l > k.len() {
                break;
            }
            i += 2 + l;
            adv.push(k[..i].to_vec());
            adv.push(k[i..].to_vec());
        }
    }
    adv.sort();
    adv.dedup();
    adv.retain(|k| !k.is_empty());
    let max_adv = ctx.tier.pick(14, 40);
    // keep the alphabet bounded but spread over all modules
    let adv_all = adv;
    let pick = |n: usize| -> Vec<Vec<u8>> {
        let step = (adv_all.len() / n).max(1);
        adv_all.iter().step_by(step).take(n).cloned().collect()
    };
    let adv: Vec<Vec<u8>> = pick(max_adv);
    let make_alphabet = |adv: &[Vec<u8>]| -> (Vec<Vec<u8>>, Vec<Program>) {
        let mut keys: Vec<Vec<u8>> = vec![b"".to_vec(), b"k".to_vec(), b"\xff".to_vec(), b"pre".to_vec()];
        keys.extend(adv.iter().cloned());
        let mut alphabet: Vec<Program> = vec![];
        for (ci, c) in [ad.a.clone(), ad.b.clone(), ad.c.clone()].iter().enumerate() {
            for k in &keys {
                let v = format!("v{}", ci).into_bytes();
                alphabet.push(Program { entry: Entry::Execute { sender: ad.poor.clone(), contract: c.clone(), funds: vec![] }, root: 0, nodes: vec![Node { writes: vec![WriteOp::Set(k.clone(), v.clone())], ..Default::default() }] });
                alphabet.push(Program { entry: Entry::Execute { sender: ad.poor.clone(), contract: c.clone(), funds: vec![] }, root: 0, nodes: vec![Node { writes: vec![WriteOp::Remove(k.clone())], ..Default::default() }] });
                alphabet.push(Program { entry: Entry::AccessorWrite { contract: c.clone(), write: WriteOp::Set(k.clone(), format!("w{}", ci).into_bytes()) }, root: 0, nodes: vec![] });
                alphabet.push(Program { entry: Entry::AccessorWrite { contract: c.clone(), write: WriteOp::Remove(k.clone()) }, root: 0, nodes: vec![] });
            }
        }
        // inside one transaction: overwrite / remove an existing key, then a nested call to the same
        // contract reads and iterates its storage through the transaction's caches
        for c in [ad.a.clone(), ad.b.clone(), ad.c.clone()] {
            for w in [WriteOp::Set(b"pre".to_vec(), b"again".to_vec()), WriteOp::Remove(b"pre".to_vec()), WriteOp::Set(b"k".to_vec(), b"kk".to_vec())] {
                alphabet.push(Program {
                    entry: Entry::Execute { sender: ad.poor.clone(), contract: c.clone(), funds: vec![] },
                    root: 0,
                    nodes: vec![
                        Node { writes: vec![w.clone()], subs: vec![Sub { id: 100, payload: vec![], reply_on: Mode::Never, msg: Msg::Call { target: Target::SelfC, funds: vec![], node: 1 }, reply: None }], ..Default::default() },
                        Node { writes: vec![w], ..Default::default() },
                    ],
                });
            }
        }
        // inside one transaction: every sequence of two or three writes to one existing key (set,
        // set another value, remove), each made by a nested call of its own (so they meet on the
        // transaction's cache level), then a further nested call reads and iterates
        for c in [ad.a.clone(), ad.b.clone(), ad.c.clone()] {
            let ws = [WriteOp::Set(b"pre".to_vec(), b"one".to_vec()), WriteOp::Set(b"pre".to_vec(), b"two".to_vec()), WriteOp::Remove(b"pre".to_vec())];
            let mut seqs: Vec<Vec<usize>> = vec![];
            for a in 0..3 {
                for b in 0..3 {
                    seqs.push(vec![a, b]);
                    for d in 0..3 {
                        seqs.push(vec![a, b, d]);
                    }
                }
            }
            for sq in seqs {
                let mut nodes = vec![Node::default()];
                for (i, wi) in sq.iter().enumerate() {
                    nodes.push(Node { writes: vec![ws[*wi].clone()], ..Default::default() });
                    nodes[0].subs.push(Sub { id: 100 + i as u64, payload: vec![], reply_on: Mode::Never, msg: Msg::Call { target: Target::SelfC, funds: vec![], node: i + 1 }, reply: None });
                }
                let obs = nodes.len();
                nodes.push(Node::default());
                nodes[0].subs.push(Sub { id: 200, payload: vec![], reply_on: Mode::Never, msg: Msg::Call { target: Target::SelfC, funds: vec![], node: obs }, reply: None });
                alphabet.push(Program { entry: Entry::Execute { sender: ad.poor.clone(), contract: c.clone(), funds: vec![] }, root: 0, nodes });
            }
        }
        // five neighbouring keys written in one transaction; in a later one, two of them with a
        // survivor in between are removed and a nested call iterates (both directions) before the
        // transaction ends
        {
            let five: Vec<WriteOp> = (1..=5).map(|i| WriteOp::Set(format!("q{}", i).into_bytes(), format!("v{}", i).into_bytes())).collect();
            alphabet.push(Program { entry: Entry::Execute { sender: ad.poor.clone(), contract: ad.a.clone(), funds: vec![] }, root: 0, nodes: vec![Node { writes: five, ..Default::default() }] });
            for removed in [vec!["q4", "q2"], vec!["q2", "q4"], vec!["q5", "q3", "q1"]] {
                let writes: Vec<WriteOp> = removed.iter().map(|k| WriteOp::Remove(k.as_bytes().to_vec())).collect();
                let mut root = Node { writes, ..Default::default() };
                root.subs.push(Sub { id: 300, payload: vec![], reply_on: Mode::Never, msg: Msg::Call { target: Target::SelfC, funds: vec![], node: 1 }, reply: None });
                alphabet.push(Program { entry: Entry::Execute { sender: ad.poor.clone(), contract: ad.a.clone(), funds: vec![] }, root: 0, nodes: vec![root, Node::default()] });
            }
        }
        alphabet.push(Program { entry: Entry::SendHelper { from: ad.rich.clone(), to: ad.b.clone(), coins: vec![("x".into(), 1)] }, root: 0, nodes: vec![] });
        alphabet.push(Program { entry: Entry::User { sender: ad.rich.clone(), msg: Msg::Delegate { validator: VALIDATOR.into(), denom: "TOKEN".into(), amount: 1 } }, root: 0, nodes: vec![] });
        alphabet.push(Program { entry: Entry::Instantiate { sender: ad.rich.clone(), code: 1, funds: vec![], label: "another".into(), admin: None }, root: 0, nodes: vec![Node { writes: vec![WriteOp::Set(b"pre".to_vec(), b"another".to_vec())], ..Default::default() }] });
        (keys, alphabet)
    };
    let (keys, alphabet) = make_alphabet(&adv);
    let inv = c08_invariant_with(&keys);
    let ex = Explorer { ctx, name: "storage-isolation".into(), alphabet: alphabet.clone(), homes: &homes, max_depth: 2, max_states: 400_000, ext: false, invariant: Some(&inv), keep_states: false, enabled: None };
    let out = ex.run(&start);
    let samples = sample_paths(&out, &alphabet, 3);
    // thorough: one level deeper over a smaller key alphabet
    let (keys3, alphabet3) = make_alphabet(&pick(6));
    let inv3 = c08_invariant_with(&keys3);
    let mut outs: Vec<(&str, &ExploreOut)> = vec![("storage-isolation", &out)];
    let out3;
    if ctx.tier == Tier::Thorough {
        let ex3 = Explorer { ctx, name: "storage-isolation-depth3".into(), alphabet: alphabet3.clone(), homes: &homes, max_depth: 3, max_states: 600_000, ext: false, invariant: Some(&inv3), keep_states: false, enabled: None };
        out3 = ex3.run(&start);
        outs.push(("storage-isolation-depth3", &out3));
    }
    let (pseq, ptrans) = c08_prefix_world(ctx, ctx.tier.pick(2, 3));
    finish_explore(
        ctx,
        &outs,
        samples,
        json!({"operations": alphabet.len(), "keys": keys.iter().map(|k| show(k)).collect::<Vec<_>>(), "adversarial_keys_harvested_from_raw_state": adv.len(), "depth": 2,
               "prefix_address_world": {"contracts": PREFIX_WORLD_ADDRS, "keys": ["k", "ck", "c", "", "cck", "/k"], "write_sequences": pseq, "writes_executed_and_all_views_compared": ptrans},
               "thorough_second_exploration": {"operations": alphabet3.len(), "keys": keys3.len(), "depth": 3},
               "views_compared": ["contract's own get/range at entry (trace)", "WasmQuery::Raw", "dump_wasm_raw", "App::contract_storage get + range"]}),
        vec!["main exploration: two contracts from the same code and one from another with default bech32 addresses; second world: a permissive Api and a custom AddressGenerator give the addresses c, cc, ccc (prefixes of each other), C, cC (case variants) and d (byte-order neighbour of c); every write there is one transaction in which all contracts then read their own key space".into()],
        json!({}),
    )
}
