//! C20: builders keep every configured component regardless of call order.
//! Tagged components, generated typestate chains (gen_c20.rs) and a runtime BFS over the
//! all-tagged typestate.

use crate::common::*;
use cosmwasm_std::testing::{mock_env, MockApi, MockQuerier, MockStorage};
use cosmwasm_std::{
    coin, to_json_binary, Addr, AnyMsg, Api, BankMsg, BankQuery, Binary, BlockInfo, CanonicalAddr, Checksum, CosmosMsg, CustomMsg, CustomQuery, Decimal, Deps, DepsMut,
    DistributionMsg, Empty, Env, GovMsg, GrpcQuery, IbcMsg, IbcQuery, MessageInfo, Order, OwnedDeps, Querier, QueryRequest, RecoverPubkeyError, Record, Reply, Response,
    StakingMsg, StakingQuery, StdResult, Storage, SubMsgResponse, SubMsgResult, Timestamp, VerificationError, VoteOption, WasmMsg, WasmQuery,
};
use cw_multi_test::error::AnyResult;
use cw_multi_test::{
    App, AppBuilder, AppResponse, Bank, BankSudo, Contract, ContractData, CosmosRouter, Distribution, Executor, Gov, Ibc, Module, Router, Staking, StakingSudo, Stargate,
    SudoMsg, Wasm, WasmSudo,
};
use serde::de::DeserializeOwned;
use serde_json::{json, Value};
use std::cell::RefCell;
use std::collections::{BTreeSet, HashSet, VecDeque};
use std::marker::PhantomData;

pub type WMsg = crate::route::MyMsg;
pub type WQuery = crate::route::MyQuery;

// ---------------------------------------------------------------------------------------------
// ContractWrapper entry points (typed for the chain / Empty-typed)

/// what every supplied entry point returns: one attribute naming it, one event, NO data
thread_local! {
    /// when set, every supplied entry point fails with its own typed error
    static SUPPLIED_FAIL: std::cell::Cell<bool> = const { std::cell::Cell::new(false) };
}
fn supplied_error(tag: &str) -> cosmwasm_std::StdError {
    cosmwasm_std::StdError::generic_err(format!("supplied failure {}", tag))
}
thread_local! {
    /// when set, the supplied entry points answer with the attribute and the event only (no
    /// messages), so that they can run inside an App
    static PLAIN_RESPONSES: std::cell::Cell<bool> = const { std::cell::Cell::new(false) };
}
fn via<C: CustomMsg>(tag: &str) -> StdResult<Response<C>> {
    if SUPPLIED_FAIL.with(|f| f.get()) {
        return Err(supplied_error(tag));
    }
    if PLAIN_RESPONSES.with(|f| f.get()) {
        return Ok(Response::new().add_attribute("via", tag).add_event(cosmwasm_std::Event::new("supplied").add_attribute("k", "v")));
    }
    // messages of every kind an Empty-typed response can carry (they are lifted to the chain's type
    // by the *_empty steps and must come through unchanged)
    #[allow(deprecated)]
    let stargate: CosmosMsg<C> = CosmosMsg::Stargate { type_url: "/supplied.Msg".into(), value: Binary::from(b"sg") };
    let any: CosmosMsg<C> = CosmosMsg::Any(AnyMsg { type_url: "/supplied.Any".into(), value: Binary::from(b"any") });
    Ok(Response::new()
        .add_attribute("via", tag)
        .add_event(cosmwasm_std::Event::new("supplied").add_attribute("k", "v"))
        .add_message(BankMsg::Send { to_address: "someone".into(), amount: vec![coin(1, "x")] })
        .add_message(stargate)
        .add_message(any)
        .add_submessage(cosmwasm_std::SubMsg::reply_on_error(cosmwasm_std::IbcMsg::CloseChannel { channel_id: "channel-1".into() }, 7).with_payload(b"pl".to_vec()))
        .add_submessage(cosmwasm_std::SubMsg::reply_always(cosmwasm_std::GovMsg::Vote { proposal_id: 1, option: cosmwasm_std::VoteOption::Yes }, 8).with_gas_limit(77_000))
        // ids at the ends of the range, with the two remaining reply_on modes
        .add_submessage(cosmwasm_std::SubMsg::reply_on_success(BankMsg::Burn { amount: vec![coin(1, "x")] }, 0))
        .add_submessage(cosmwasm_std::SubMsg::reply_never(BankMsg::Burn { amount: vec![coin(2, "x")] }))
        .add_submessage(cosmwasm_std::SubMsg::reply_on_error(BankMsg::Burn { amount: vec![coin(3, "x")] }, u64::MAX)))
}
pub fn w_exec_c(_: DepsMut<WQuery>, _: Env, _: MessageInfo, _: Empty) -> StdResult<Response<WMsg>> {
    via("exec_c")
}
pub fn w_inst_c(_: DepsMut<WQuery>, _: Env, _: MessageInfo, _: Empty) -> StdResult<Response<WMsg>> {
    via("inst_c")
}
pub fn w_query_c(_: Deps<WQuery>, _: Env, _: Empty) -> StdResult<Binary> {
    if SUPPLIED_FAIL.with(|f| f.get()) {
        return Err(supplied_error("query_c"));
    }
    to_json_binary("query_c")
}
pub fn w_exec_e(_: DepsMut, _: Env, _: MessageInfo, _: Empty) -> StdResult<Response> {
    via("exec_e")
}
pub fn w_inst_e(_: DepsMut, _: Env, _: MessageInfo, _: Empty) -> StdResult<Response> {
    via("inst_e")
}
pub fn w_query_e(_: Deps, _: Env, _: Empty) -> StdResult<Binary> {
    if SUPPLIED_FAIL.with(|f| f.get()) {
        return Err(supplied_error("query_e"));
    }
    to_json_binary("query_e")
}
pub fn w_sudo_c(_: DepsMut<WQuery>, _: Env, _: Empty) -> StdResult<Response<WMsg>> {
    via("sudo")
}
pub fn w_sudo_e(_: DepsMut, _: Env, _: Empty) -> StdResult<Response> {
    via("sudo_empty")
}
pub fn w_reply_c(_: DepsMut<WQuery>, _: Env, _: Reply) -> StdResult<Response<WMsg>> {
    via("reply")
}
pub fn w_reply_e(_: DepsMut, _: Env, _: Reply) -> StdResult<Response> {
    via("reply_empty")
}
pub fn w_migrate_c(_: DepsMut<WQuery>, _: Env, _: Empty) -> StdResult<Response<WMsg>> {
    via("migrate")
}
pub fn w_migrate_e(_: DepsMut, _: Env, _: Empty) -> StdResult<Response> {
    via("migrate_empty")
}
pub fn w_checksum() -> Checksum {
    Checksum::generate(b"supplied checksum")
}

/// The name of the supplied function that answered, provided the response is exactly the one that
/// function returns (a kept entry point is the supplied function: same attributes, events, data,
/// messages); otherwise a description of the difference.
fn attr_via(r: &AnyResult<Response<WMsg>>) -> String {
    match r {
        Ok(r) => {
            let tag = r.attributes.iter().find(|a| a.key == "via").map(|a| a.value.clone()).unwrap_or_else(|| "<no via attribute>".into());
            let want: Response<WMsg> = via::<WMsg>(&tag).unwrap();
            if *r == want {
                tag
            } else {
                format!("{} but the response differs from the one supplied: attributes {:?}, events {:?}, data {:?}, messages {}", tag, r.attributes, r.events, r.data, r.messages.len())
            }
        }
        Err(_) => "Err".into(),
    }
}

fn check_wrapper(ctx: &Ctx, ctor: &str, steps: &[&str], c: &dyn Contract<WMsg, WQuery>) -> u64 {
    let mut deps: OwnedDeps<MockStorage, MockApi, MockQuerier<WQuery>, WQuery> =
        OwnedDeps { storage: MockStorage::default(), api: MockApi::default(), querier: MockQuerier::<WQuery>::new(&[]), custom_query_type: PhantomData };
    let env = mock_env();
    let info = MessageInfo { sender: Addr::unchecked("s"), funds: vec![] };
    let empty = b"{}".to_vec();
    let case = |what: &str, got: String, want: String| json!({"engine": "builders", "kind": "ContractWrapper", "constructor": ctor, "steps": steps, "what": what, "got": got, "want": want});
    let mut n = 0u64;
    // which step class is the last one that ran after a given supplied item? (for the violation class)
    let lost_after = |item: &str| -> String {
        let pos = steps.iter().position(|s| s.starts_with(item)).unwrap_or(0);
        steps[pos + 1..].iter().map(|s| s.to_string()).collect::<Vec<_>>().join("+")
    };
    // checksum
    n += 1;
    let want_cs = if steps.contains(&"checksum") { Some(w_checksum()) } else { None };
    if c.checksum() != want_cs {
        ctx.violation(
            &format!("c20:wrapper-checksum-{}", if want_cs.is_some() { "lost" } else { "invented" }),
            case("checksum()", format!("{:?}", c.checksum()), format!("{:?} (later steps: {})", want_cs, lost_after("checksum"))),
        );
    }
    // constructor entry points
    let (we, wi, wq) = if ctor == "new" { ("exec_c", "inst_c", "query_c") } else { ("exec_e", "inst_e", "query_e") };
    // (a panic inside the wrapper is an answer too: the entry point was not kept)
    macro_rules! guarded {
        ($e:expr) => {
            match catch(|| attr_via(&$e)) {
                Ok(s) => s,
                Err(p) => format!("PANIC {}", p),
            }
        };
    }
    let checks: Vec<(&str, String, String)> = vec![
        ("execute", guarded!(c.execute(deps.as_mut(), env.clone(), info.clone(), empty.clone())), we.to_string()),
        ("instantiate", guarded!(c.instantiate(deps.as_mut(), env.clone(), info.clone(), empty.clone())), wi.to_string()),
        ("query", c.query(deps.as_ref(), env.clone(), empty.clone()).map(|b| String::from_utf8_lossy(&b).to_string()).unwrap_or_else(|_| "Err".into()), format!("\"{}\"", wq)),
        ("sudo", guarded!(c.sudo(deps.as_mut(), env.clone(), empty.clone())), steps.iter().find(|s| s.starts_with("sudo")).map(|s| s.to_string()).unwrap_or_else(|| "Err".into())),
        (
            "reply",
            guarded!(c.reply(
                deps.as_mut(),
                env.clone(),
                #[allow(deprecated)]
                Reply { id: 1, payload: Binary::default(), gas_used: 0, result: SubMsgResult::Ok(SubMsgResponse { events: vec![], data: None, msg_responses: vec![] }) },
            )),
            steps.iter().find(|s| s.starts_with("reply")).map(|s| s.to_string()).unwrap_or_else(|| "Err".into()),
        ),
        ("migrate", guarded!(c.migrate(deps.as_mut(), env.clone(), empty.clone())), steps.iter().find(|s| s.starts_with("migrate")).map(|s| s.to_string()).unwrap_or_else(|| "Err".into())),
    ];
    for (what, got, want) in checks {
        n += 1;
        if got != want {
            ctx.violation(&format!("c20:wrapper-entry-point:{}", what), case(what, got, want));
        }
    }
    // the failure path: a kept entry point hands back the supplied function's own error value
    // (callers take it apart with downcast_ref), whatever steps came before or after
    SUPPLIED_FAIL.with(|f| f.set(true));
    fn shown<T>(r: Result<AnyResult<T>, String>) -> String {
        match r {
            Err(p) => format!("PANIC {}", p),
            Ok(Ok(_)) => "Ok".into(),
            Ok(Err(e)) => match e.downcast_ref::<cosmwasm_std::StdError>() {
                Some(s) => format!("typed error: {}", s),
                None => format!("error without the supplied error value inside: {:#}", e),
            },
        }
    }
    let reply_msg = || {
        #[allow(deprecated)]
        Reply { id: 1, payload: Binary::default(), gas_used: 0, result: SubMsgResult::Ok(SubMsgResponse { events: vec![], data: None, msg_responses: vec![] }) }
    };
    let fchecks: Vec<(&str, String, Option<String>)> = vec![
        ("execute", shown(catch(|| c.execute(deps.as_mut(), env.clone(), info.clone(), empty.clone()))), Some(we.to_string())),
        ("instantiate", shown(catch(|| c.instantiate(deps.as_mut(), env.clone(), info.clone(), empty.clone()))), Some(wi.to_string())),
        ("query", shown(catch(|| c.query(deps.as_ref(), env.clone(), empty.clone()))), Some(wq.to_string())),
        ("sudo", shown(catch(|| c.sudo(deps.as_mut(), env.clone(), empty.clone()))), steps.iter().find(|s| s.starts_with("sudo")).map(|s| s.to_string())),
        ("reply", shown(catch(|| c.reply(deps.as_mut(), env.clone(), reply_msg()))), steps.iter().find(|s| s.starts_with("reply")).map(|s| s.to_string())),
        ("migrate", shown(catch(|| c.migrate(deps.as_mut(), env.clone(), empty.clone()))), steps.iter().find(|s| s.starts_with("migrate")).map(|s| s.to_string())),
    ];
    SUPPLIED_FAIL.with(|f| f.set(false));
    for (what, got, tag) in fchecks {
        n += 1;
        if let Some(tag) = tag {
            let want = format!("typed error: {}", supplied_error(&tag));
            if got != want {
                ctx.violation(&format!("c20:wrapper-entry-point-failure:{}", what), case(&format!("{} (the supplied function fails)", what), got, want));
            }
        }
    }
    n
}

// ---------------------------------------------------------------------------------------------
// tagged AppBuilder components

fn tag_resp(kind: &str, tag: u8) -> AnyResult<AppResponse> {
    Ok(AppResponse { events: vec![], data: Some(Binary::from(format!("{}-{}", kind, tag).into_bytes())) })
}
fn tag_q(kind: &str, tag: u8) -> AnyResult<Binary> {
    Ok(to_json_binary(&format!("{}-{}", kind, tag))?)
}

macro_rules! tagged_module {
    ($name:ident, $kind:literal, $exec:ty, $query:ty, $sudo:ty) => {
        pub struct $name(pub u8);
        impl Module for $name {
            type ExecT = $exec;
            type QueryT = $query;
            type SudoT = $sudo;
            fn execute<ExecC, QueryC>(&self, _: &dyn Api, _: &mut dyn Storage, _: &dyn CosmosRouter<ExecC = ExecC, QueryC = QueryC>, _: &BlockInfo, _: Addr, _: $exec) -> AnyResult<AppResponse>
            where
                ExecC: CustomMsg + DeserializeOwned + 'static,
                QueryC: CustomQuery + DeserializeOwned + 'static,
            {
                tag_resp($kind, self.0)
            }
            fn query(&self, _: &dyn Api, _: &dyn Storage, _: &dyn Querier, _: &BlockInfo, _: $query) -> AnyResult<Binary> {
                tag_q($kind, self.0)
            }
            fn sudo<ExecC, QueryC>(&self, _: &dyn Api, _: &mut dyn Storage, _: &dyn CosmosRouter<ExecC = ExecC, QueryC = QueryC>, _: &BlockInfo, _: $sudo) -> AnyResult<AppResponse>
            where
                ExecC: CustomMsg + DeserializeOwned + 'static,
                QueryC: CustomQuery + DeserializeOwned + 'static,
            {
                tag_resp($kind, self.0)
            }
        }
    };
}

tagged_module!(TBank, "bank", BankMsg, BankQuery, BankSudo);
tagged_module!(TCustom, "custom", Empty, Empty, Empty);
tagged_module!(TStaking, "staking", StakingMsg, StakingQuery, StakingSudo);
tagged_module!(TDistr, "distribution", DistributionMsg, Empty, Empty);
tagged_module!(TIbc, "ibc", IbcMsg, IbcQuery, Empty);
tagged_module!(TGov, "gov", GovMsg, Empty, Empty);
impl Bank for TBank {}
thread_local! {
    /// (tag of the staking component, block it was handed) for every end-of-block call
    static QUEUE_CALLS: RefCell<Vec<(u8, BlockInfo)>> = RefCell::new(vec![]);
}
impl Staking for TStaking {
    fn process_queue<ExecC: CustomMsg, QueryC: CustomQuery>(&self, _: &dyn Api, _: &mut dyn Storage, _: &dyn CosmosRouter<ExecC = ExecC, QueryC = QueryC>, block: &BlockInfo) -> AnyResult<AppResponse> {
        QUEUE_CALLS.with(|q| q.borrow_mut().push((self.0, block.clone())));
        Ok(AppResponse::default())
    }
}
impl Distribution for TDistr {}
impl Ibc for TIbc {}
impl Gov for TGov {}

pub struct TStargate(pub u8);
impl Stargate for TStargate {
    fn execute_stargate<ExecC, QueryC>(&self, _: &dyn Api, _: &mut dyn Storage, _: &dyn CosmosRouter<ExecC = ExecC, QueryC = QueryC>, _: &BlockInfo, _: Addr, _: String, _: Binary) -> AnyResult<AppResponse>
    where
        ExecC: CustomMsg + DeserializeOwned + 'static,
        QueryC: CustomQuery + DeserializeOwned + 'static,
    {
        tag_resp("stargate", self.0)
    }
    fn query_stargate(&self, _: &dyn Api, _: &dyn Storage, _: &dyn Querier, _: &BlockInfo, _: String, _: Binary) -> AnyResult<Binary> {
        tag_q("stargate", self.0)
    }
    fn execute_any<ExecC, QueryC>(&self, _: &dyn Api, _: &mut dyn Storage, _: &dyn CosmosRouter<ExecC = ExecC, QueryC = QueryC>, _: &BlockInfo, _: Addr, _: AnyMsg) -> AnyResult<AppResponse>
    where
        ExecC: CustomMsg + DeserializeOwned + 'static,
        QueryC: CustomQuery + DeserializeOwned + 'static,
    {
        tag_resp("any", self.0)
    }
    fn query_grpc(&self, _: &dyn Api, _: &dyn Storage, _: &dyn Querier, _: &BlockInfo, _: GrpcQuery) -> AnyResult<Binary> {
        tag_q("grpc", self.0)
    }
}

pub struct TWasm(pub u8);
impl Wasm<Empty, Empty> for TWasm {
    fn execute(&self, _: &dyn Api, _: &mut dyn Storage, _: &dyn CosmosRouter<ExecC = Empty, QueryC = Empty>, _: &BlockInfo, _: Addr, _: WasmMsg) -> AnyResult<AppResponse> {
        tag_resp("wasm", self.0)
    }
    fn query(&self, _: &dyn Api, _: &dyn Storage, _: &dyn Querier, _: &BlockInfo, _: WasmQuery) -> AnyResult<Binary> {
        tag_q("wasm", self.0)
    }
    fn sudo(&self, _: &dyn Api, _: &mut dyn Storage, _: &dyn CosmosRouter<ExecC = Empty, QueryC = Empty>, _: &BlockInfo, _: WasmSudo) -> AnyResult<AppResponse> {
        tag_resp("wasm", self.0)
    }
    fn store_code(&mut self, _: Addr, _: Box<dyn Contract<Empty, Empty>>) -> u64 {
        1000 + self.0 as u64
    }
    fn store_code_with_id(&mut self, _: Addr, code_id: u64, _: Box<dyn Contract<Empty, Empty>>) -> AnyResult<u64> {
        Ok(code_id)
    }
    fn duplicate_code(&mut self, _: u64) -> AnyResult<u64> {
        Ok(2000 + self.0 as u64)
    }
    fn contract_data(&self, _: &dyn Storage, _: &Addr) -> AnyResult<ContractData> {
        anyhow::bail!("tagged wasm keeps no contracts")
    }
    fn dump_wasm_raw(&self, _: &dyn Storage, _: &Addr) -> Vec<Record> {
        vec![(b"tag".to_vec(), vec![self.0])]
    }
}

pub struct TApi(pub u8);
impl Api for TApi {
    fn addr_validate(&self, human: &str) -> StdResult<Addr> {
        if human == "probe" {
            return Ok(Addr::unchecked(format!("api-{}", self.0)));
        }
        MockApi::default().addr_validate(human)
    }
    fn addr_canonicalize(&self, human: &str) -> StdResult<CanonicalAddr> {
        MockApi::default().addr_canonicalize(human)
    }
    fn addr_humanize(&self, canonical: &CanonicalAddr) -> StdResult<Addr> {
        MockApi::default().addr_humanize(canonical)
    }
    fn secp256k1_verify(&self, a: &[u8], b: &[u8], c: &[u8]) -> Result<bool, VerificationError> {
        MockApi::default().secp256k1_verify(a, b, c)
    }
    fn secp256k1_recover_pubkey(&self, a: &[u8], b: &[u8], c: u8) -> Result<Vec<u8>, RecoverPubkeyError> {
        MockApi::default().secp256k1_recover_pubkey(a, b, c)
    }
    fn ed25519_verify(&self, a: &[u8], b: &[u8], c: &[u8]) -> Result<bool, VerificationError> {
        MockApi::default().ed25519_verify(a, b, c)
    }
    fn ed25519_batch_verify(&self, a: &[&[u8]], b: &[&[u8]], c: &[&[u8]]) -> Result<bool, VerificationError> {
        MockApi::default().ed25519_batch_verify(a, b, c)
    }
    fn debug(&self, _: &str) {}
}

pub struct TStorage(pub SnapStorage);
impl Storage for TStorage {
    fn get(&self, key: &[u8]) -> Option<Vec<u8>> {
        self.0.get(key)
    }
    fn range<'a>(&'a self, start: Option<&[u8]>, end: Option<&[u8]>, order: Order) -> Box<dyn Iterator<Item = Record> + 'a> {
        self.0.range(start, end, order)
    }
    fn set(&mut self, key: &[u8], value: &[u8]) {
        self.0.set(key, value)
    }
    fn remove(&mut self, key: &[u8]) {
        self.0.remove(key)
    }
}

pub fn tstorage(tag: u8) -> TStorage {
    let mut s = SnapStorage::new();
    s.set(b"storage-tag", &[b'0' + tag]);
    s.set(b"prior", b"content");
    TStorage(s)
}

pub fn tblock(tag: u8) -> BlockInfo {
    // the second supplied block has the field values a "not set" test would stumble over: height 0,
    // time 0, empty chain id (it is a supplied block like any other)
    if tag == 2 {
        return BlockInfo { height: 0, time: Timestamp::from_nanos(0), chain_id: String::new() };
    }
    BlockInfo { height: 100 + tag as u64, time: Timestamp::from_seconds(1_000_000 + tag as u64), chain_id: format!("chain-{}", tag) }
}

thread_local! {
    static INIT_COUNT: RefCell<u32> = const { RefCell::new(0) };
}

pub fn init_fn<B, C, W, St, D, I, G, Sg, A>(_router: &mut Router<B, C, W, St, D, I, G, Sg>, _api: &A, storage: &mut dyn Storage) {
    INIT_COUNT.with(|c| *c.borrow_mut() += 1);
    storage.set(b"init", b"ran");
}

/// (owner component, label) of every transcript entry, in order.
pub const ENTRIES: [(&str, &str); 24] = [
    ("api", "api.addr_validate(probe)"),
    ("block", "block_info"),
    ("storage", "storage tag / prior content / init write"),
    ("init", "init function ran once"),
    ("bank", "bank execute"),
    ("bank", "bank query"),
    ("bank", "bank sudo"),
    ("custom", "custom execute"),
    ("custom", "custom query"),
    ("wasm", "wasm execute"),
    ("wasm", "wasm query"),
    ("wasm", "wasm sudo"),
    ("wasm", "store_code"),
    ("staking", "staking execute"),
    ("staking", "staking query"),
    ("staking", "staking sudo"),
    ("distribution", "distribution execute"),
    ("ibc", "ibc execute"),
    ("ibc", "ibc query"),
    ("gov", "gov execute"),
    ("stargate", "stargate execute"),
    ("stargate", "any execute"),
    ("stargate", "stargate query"),
    ("stargate", "grpc query"),
];

struct NullContract;
impl Contract<Empty, Empty> for NullContract {
    fn execute(&self, _: DepsMut, _: Env, _: MessageInfo, _: Vec<u8>) -> AnyResult<Response> {
        Ok(Response::new())
    }
    fn instantiate(&self, _: DepsMut, _: Env, _: MessageInfo, _: Vec<u8>) -> AnyResult<Response> {
        Ok(Response::new())
    }
    fn query(&self, _: Deps, _: Env, _: Vec<u8>) -> AnyResult<Binary> {
        Ok(Binary::default())
    }
    fn sudo(&self, _: DepsMut, _: Env, _: Vec<u8>) -> AnyResult<Response> {
        Ok(Response::new())
    }
    fn reply(&self, _: DepsMut, _: Env, _: Reply) -> AnyResult<Response> {
        Ok(Response::new())
    }
    fn migrate(&self, _: DepsMut, _: Env, _: Vec<u8>) -> AnyResult<Response> {
        Ok(Response::new())
    }
}

/// Probes every component of a built App; one transcript entry per ENTRIES row.
pub fn probe<B, A, S, C, W, St, D, I, G, Sg>(app: &mut App<B, A, S, C, W, St, D, I, G, Sg>) -> Vec<String>
where
    B: Bank,
    A: Api,
    S: Storage,
    C: Module<ExecT = Empty, QueryT = Empty>,
    W: Wasm<Empty, Empty>,
    St: Staking,
    D: Distribution,
    I: Ibc,
    G: Gov,
    Sg: Stargate,
{
    let mock = MockApi::default();
    let sender = mock.addr_make("sender");
    let other = mock.addr_make("other").into_string();
    let show_r = |r: AnyResult<AppResponse>| match r {
        Ok(r) => format!("Ok({})", r.data.map(|d| String::from_utf8_lossy(&d).to_string()).unwrap_or_else(|| "no data".into())),
        Err(_) => "Err".to_string(),
    };
    let mut t = vec![];
    t.push(format!("{:?}", app.api().addr_validate("probe").map_err(|_| "Err")));
    t.push(format!("{:?}", app.block_info()));
    t.push(format!(
        "tag={:?} prior={:?} init={:?}",
        app.storage().get(b"storage-tag").map(|v| String::from_utf8_lossy(&v).to_string()),
        app.storage().get(b"prior").is_some(),
        app.storage().get(b"init").map(|v| String::from_utf8_lossy(&v).to_string())
    ));
    t.push(format!("init_count={}", INIT_COUNT.with(|c| *c.borrow())));
    let q = |app: &App<B, A, S, C, W, St, D, I, G, Sg>, rq: QueryRequest<Empty>| -> String {
        let r = app.raw_query(&cosmwasm_std::to_json_vec(&rq).unwrap());
        let s = format!("{:?}", r);
        // error texts are not part of the transcript
        if s.contains("Ok(Ok(") {
            s
        } else {
            "Err".to_string()
        }
    };
    t.push(show_r(app.execute(sender.clone(), BankMsg::Send { to_address: other.clone(), amount: vec![coin(1, "x")] }.into())));
    t.push(q(app, BankQuery::Balance { address: other.clone(), denom: "x".into() }.into()));
    t.push(show_r(app.sudo(SudoMsg::Bank(BankSudo::Mint { to_address: other.clone(), amount: vec![coin(3, "y")] }))));
    t.push(show_r(app.execute(sender.clone(), CosmosMsg::Custom(Empty {}))));
    t.push(q(app, QueryRequest::Custom(Empty {})));
    t.push(show_r(app.execute(sender.clone(), WasmMsg::Execute { contract_addr: other.clone(), msg: Binary::from(b"{}"), funds: vec![] }.into())));
    t.push(q(app, WasmQuery::ContractInfo { contract_addr: other.clone() }.into()));
    t.push(show_r(app.sudo(SudoMsg::Wasm(WasmSudo { contract_addr: Addr::unchecked(&other), message: Binary::from(b"{}") }))));
    t.push(format!("code_id={}", app.store_code(Box::new(NullContract))));
    t.push(show_r(app.execute(sender.clone(), StakingMsg::Delegate { validator: "nobody".into(), amount: coin(1, "TOKEN") }.into())));
    t.push(q(app, StakingQuery::Validator { address: "nobody".into() }.into()));
    t.push(show_r(app.sudo(SudoMsg::Staking(StakingSudo::Slash { validator: "nobody".into(), percentage: Decimal::percent(10) }))));
    t.push(show_r(app.execute(sender.clone(), DistributionMsg::WithdrawDelegatorReward { validator: "nobody".into() }.into())));
    t.push(show_r(app.execute(sender.clone(), IbcMsg::CloseChannel { channel_id: "c".into() }.into())));
    t.push(q(app, IbcQuery::PortId {}.into()));
    t.push(show_r(app.execute(sender.clone(), GovMsg::Vote { proposal_id: 1, option: VoteOption::Yes }.into())));
    #[allow(deprecated)]
    t.push(show_r(app.execute(sender.clone(), CosmosMsg::Stargate { type_url: "/t".into(), value: Binary::default() })));
    t.push(show_r(app.execute(sender.clone(), CosmosMsg::Any(AnyMsg { type_url: "/a".into(), value: Binary::default() }))));
    #[allow(deprecated)]
    t.push(q(app, QueryRequest::Stargate { path: "/p".into(), data: Binary::default() }));
    t.push(q(app, QueryRequest::Grpc(GrpcQuery { path: "/g".into(), data: Binary::default() })));
    assert_eq!(t.len(), ENTRIES.len());
    t
}

pub const STEPS: [&str; 11] = ["bank", "api", "storage", "custom", "wasm", "staking", "distribution", "ibc", "gov", "stargate", "block"];

type TB = AppBuilder<TBank, TApi, TStorage, TCustom, TWasm, TStaking, TDistr, TIbc, TGov, TStargate>;

fn full(tag: u8) -> TB {
    AppBuilder::new()
        .with_bank(TBank(tag))
        .with_api(TApi(tag))
        .with_storage(tstorage(tag))
        .with_custom(TCustom(tag))
        .with_wasm(TWasm(tag))
        .with_staking(TStaking(tag))
        .with_distribution(TDistr(tag))
        .with_ibc(TIbc(tag))
        .with_gov(TGov(tag))
        .with_stargate(TStargate(tag))
        .with_block(tblock(tag))
}

fn apply(b: TB, step: usize, tag: u8) -> TB {
    match STEPS[step] {
        "bank" => b.with_bank(TBank(tag)),
        "api" => b.with_api(TApi(tag)),
        "storage" => b.with_storage(tstorage(tag)),
        "custom" => b.with_custom(TCustom(tag)),
        "wasm" => b.with_wasm(TWasm(tag)),
        "staking" => b.with_staking(TStaking(tag)),
        "distribution" => b.with_distribution(TDistr(tag)),
        "ibc" => b.with_ibc(TIbc(tag)),
        "gov" => b.with_gov(TGov(tag)),
        "stargate" => b.with_stargate(TStargate(tag)),
        _ => b.with_block(tblock(tag)),
    }
}

fn reset_init() {
    INIT_COUNT.with(|c| *c.borrow_mut() = 0);
}

fn compose(base: &[String], other: &[String], owners_from_other: &BTreeSet<&str>) -> Vec<String> {
    ENTRIES.iter().enumerate().map(|(i, (owner, _))| if owners_from_other.contains(owner) { other[i].clone() } else { base[i].clone() }).collect()
}

fn diff_entries(got: &[String], want: &[String]) -> Vec<Value> {
    got.iter().zip(want).enumerate().filter(|(_, (g, w))| g != w).map(|(i, (g, w))| json!({"entry": ENTRIES[i].1, "component": ENTRIES[i].0, "got": g, "want": w})).collect()
}

pub fn run_c20(ctx: &Ctx) -> i32 {
    let mut evals = 0u64;
    let mut states = 0u64;
    // ---- ContractWrapper: all 712 typestate chains
    let chains = crate::gen_c20::wrapper_chains();
    let chains_len = chains.len();
    for (ctor, steps, c) in &chains {
        evals += check_wrapper(ctx, ctor, steps, c.as_ref());
        states += 1;
    }
    // the supplied checksum is what the chain reports for the stored code AND for every copy of it
    // (a code without supplied checksum: the copy reports the original's)
    {
        let mut app = cw_multi_test::custom_app::<WMsg, WQuery, _>(cw_multi_test::no_init);
        for (ctor, steps, c) in crate::gen_c20::wrapper_chains() {
            let supplied = steps.contains(&"checksum");
            let id = app.store_code(c);
            let dup = app.duplicate_code(id);
            let dup2 = dup.as_ref().ok().and_then(|d| app.duplicate_code(*d).ok());
            let cs = |app: &App<_, _, _, _, _, _, _, _, _, _>, id: u64| app.wrap().query_wasm_code_info(id).map(|i| i.checksum).ok();
            let orig = cs(&app, id);
            let copies: Vec<Option<cosmwasm_std::Checksum>> = [dup.as_ref().ok().copied(), dup2].iter().map(|d| d.and_then(|d| cs(&app, d))).collect();
            evals += 1;
            let want = if supplied { Some(w_checksum()) } else { orig };
            // ... and the stored code IS this wrapper: instantiated in the App (next to hundreds of
            // other wrappers, many with the very same supplied checksum), every entry point that
            // answers is this chain's own
            {
                PLAIN_RESPONSES.with(|f| f.set(true));
                let sender = Addr::unchecked("sender");
                let via_of = |r: AnyResult<AppResponse>| -> String {
                    match r {
                        Ok(r) => r.events.iter().flat_map(|e| e.attributes.iter()).find(|a| a.key == "via").map(|a| a.value.clone()).unwrap_or_else(|| "<no via attribute>".into()),
                        Err(_) => "Err".into(),
                    }
                };
                let (we, wq) = if ctor == "new" { ("exec_c", "query_c") } else { ("exec_e", "query_e") };
                let step = |p: &str| steps.iter().find(|s| s.starts_with(p)).map(|s| s.to_string()).unwrap_or_else(|| "Err".into());
                match catch(|| app.instantiate_contract(id, sender.clone(), &Empty {}, &[], "l", Some("sender".into()))) {
                    Ok(Ok(addr)) => {
                        let got = vec![
                            ("execute", catch(|| via_of(app.execute_contract(sender.clone(), addr.clone(), &Empty {}, &[]))).unwrap_or_else(|p| format!("PANIC {}", p)), we.to_string()),
                            ("sudo", catch(|| via_of(app.wasm_sudo(addr.clone(), &Empty {}))).unwrap_or_else(|p| format!("PANIC {}", p)), step("sudo")),
                            ("migrate", catch(|| via_of(app.migrate_contract(sender.clone(), addr.clone(), &Empty {}, id))).unwrap_or_else(|p| format!("PANIC {}", p)), step("migrate")),
                            ("query", app.wrap().query_wasm_smart::<String>(addr.clone(), &Empty {}).unwrap_or_else(|_| "Err".into()), wq.to_string()),
                        ];
                        for (what, g, w) in got {
                            evals += 1;
                            if g != w {
                                ctx.violation(&format!("c20:wrapper-entry-point:{}:stored-in-an-app", what), json!({"engine": "builders", "kind": "ContractWrapper", "constructor": ctor, "steps": steps, "what": format!("{} of the contract instantiated from the stored wrapper (code id {})", what, id), "got": g, "want": w}));
                            }
                        }
                    }
                    other => ctx.violation("c20:wrapper-entry-point:instantiate:stored-in-an-app", json!({"engine": "builders", "kind": "ContractWrapper", "constructor": ctor, "steps": steps, "result": format!("{:?}", other.map(|r| r.map(|a| a.into_string()).map_err(|e| format!("{:#}", e))))})),
                }
                PLAIN_RESPONSES.with(|f| f.set(false));
            }
            if orig != want || copies.iter().any(|c| *c != want) || orig.is_none() {
                ctx.violation(
                    &format!("c20:wrapper-checksum-{}", if orig != want { "lost" } else { "lost-in-copy" }),
                    json!({"engine": "builders", "kind": "ContractWrapper", "constructor": ctor, "steps": steps, "what": "checksum reported by the chain for the stored code, its copy and the copy's copy", "stored": format!("{:?}", orig), "copies": format!("{:?}", copies), "want": format!("{:?}", want)}),
                );
            }
        }
    }
    // ---- AppBuilder
    reset_init();
    let t_default = {
        let mut app = AppBuilder::new().build(init_fn);
        probe(&mut app)
    };
    reset_init();
    let t1 = {
        let mut app = full(1).build(init_fn);
        probe(&mut app)
    };
    reset_init();
    let t2 = {
        let mut app = full(2).build(init_fn);
        probe(&mut app)
    };
    // the other ways of getting a default application must give the same application
    {
        use cw_multi_test::{custom_app, no_init, App as DefaultApp, BasicAppBuilder};
        let mut variants: Vec<(&str, Vec<String>)> = vec![];
        reset_init();
        variants.push(("AppBuilder::default()", probe(&mut AppBuilder::default().build(init_fn))));
        reset_init();
        variants.push(("AppBuilder::new_custom::<Empty, Empty>()", probe(&mut BasicAppBuilder::<Empty, Empty>::new_custom().build(init_fn))));
        for (name, mut t) in [
            ("App::default()", { reset_init(); let mut a = DefaultApp::default(); probe(&mut a) }),
            ("App::new(no_init)", { reset_init(); let mut a = DefaultApp::new(no_init); probe(&mut a) }),
            ("custom_app::<Empty, Empty, _>(no_init)", { reset_init(); let mut a = custom_app::<Empty, Empty, _>(no_init); probe(&mut a) }),
        ] {
            // these run no init function of ours: entries 2 (init write) and 3 (init count) are compared modulo that
            t[2] = t_default[2].clone();
            t[3] = t_default[3].clone();
            variants.push((name, t));
        }
        for (name, t) in variants {
            evals += ENTRIES.len() as u64;
            states += 1;
            if t != t_default {
                ctx.violation(&format!("c20:default-constructor-differs:{}", name), json!({"engine": "builders", "constructor": name, "differences": diff_entries(&t, &t_default)}));
            }
        }
    }
    // every probe entry must discriminate default / tag 1 / tag 2 (otherwise the canonical full
    // chain itself lost a component)
    for (i, (owner, label)) in ENTRIES.iter().enumerate() {
        if *owner == "init" {
            continue;
        }
        evals += 1;
        if t1[i] == t_default[i] || t1[i] == t2[i] {
            ctx.violation(&format!("c20:builder-full-chain-lost-component:{}", owner), json!({"engine": "builders", "entry": label, "default": t_default[i], "all_tagged_1": t1[i], "all_tagged_2": t2[i]}));
        }
    }
    // (i) from the default typestate: generated chains (<= 2 steps in every order, rotations of the full order and its reverse)
    let mut nchains = 0u64;
    {
        let mut run = |steps: Vec<&'static str>, got: Vec<String>| {
            let set: BTreeSet<&str> = steps.iter().copied().collect();
            let mut want = compose(&t_default, &t1, &set);
            // storage entry also reflects whether init wrote into the supplied storage
            let _ = &mut want;
            nchains += 1;
            if got != want {
                let last = steps.last().copied().unwrap_or("");
                let d = diff_entries(&got, &want);
                let lost: Vec<String> = d.iter().map(|x| x["component"].as_str().unwrap_or("").to_string()).collect();
                ctx.violation(
                    &format!("c20:builder-order:{}-after-{}", last, lost.first().cloned().unwrap_or_default()),
                    json!({"engine": "builders", "kind": "AppBuilder from defaults", "steps": steps, "differences": d}),
                );
            }
            reset_init();
        };
        reset_init();
        crate::gen_c20::builder_chains(&mut run);
    }
    evals += nchains * ENTRIES.len() as u64;
    states += nchains;
    // (ii) all-tagged typestate: BFS over all subsets, every step validated from every state
    let mut seen: HashSet<u32> = HashSet::new();
    let mut queue: VecDeque<(u32, Vec<usize>)> = VecDeque::new();
    seen.insert(0);
    queue.push_back((0, vec![]));
    let mut transitions = 0u64;
    while let Some((mask, path)) = queue.pop_front() {
        for step in 0..STEPS.len() {
            let nmask = mask | (1 << step);
            let mut p = path.clone();
            p.push(step);
            reset_init();
            let mut b = full(1);
            for s in &p {
                b = apply(b, *s, 2);
            }
            let mut app = b.build(init_fn);
            let got = probe(&mut app);
            let set: BTreeSet<&str> = (0..STEPS.len()).filter(|i| nmask & (1 << i) != 0).map(|i| STEPS[i]).collect();
            let want = compose(&t1, &t2, &set);
            transitions += 1;
            if got != want {
                let d = diff_entries(&got, &want);
                ctx.violation(
                    &format!("c20:builder-step-frame:{}", STEPS[step]),
                    json!({"engine": "builders", "kind": "AppBuilder all-tagged", "path": p.iter().map(|i| STEPS[*i]).collect::<Vec<_>>(), "differences": d}),
                );
            }
            if seen.insert(nmask) {
                queue.push_back((nmask, p));
            }
        }
    }
    evals += transitions * ENTRIES.len() as u64;
    states += seen.len() as u64;
    // (iii) the built App drives the staking component it was given with the block it shows: after
    // every set_block / update_block, in both builder orders, the supplied component was called once,
    // with the block that block_info() reports
    for order in 0..2 {
        for seq in 0..4u8 {
            let b = AppBuilder::new();
            let mut app = if order == 0 { b.with_block(tblock(1)).with_staking(TStaking(7)).build(|_, _, _| {}) } else { b.with_staking(TStaking(7)).with_block(tblock(1)).build(|_, _, _| {}) };
            for stepno in 0..2u8 {
                let use_set = (seq >> stepno) & 1 == 0;
                QUEUE_CALLS.with(|q| q.borrow_mut().clear());
                if use_set {
                    let mut nb = tblock(2 + stepno);
                    nb.height += 1000 * (stepno as u64 + 1);
                    app.set_block(nb);
                } else {
                    app.update_block(|b| {
                        b.height += 7;
                        b.time = b.time.plus_seconds(11);
                    });
                }
                let calls = QUEUE_CALLS.with(|q| std::mem::take(&mut *q.borrow_mut()));
                let shown = app.block_info();
                states += 1;
                evals += 1;
                if calls.len() != 1 || calls[0].0 != 7 || calls[0].1 != shown {
                    ctx.violation(
                        &format!("c20:staking-component-driven-with-another-block:{}", if use_set { "set_block" } else { "update_block" }),
                        json!({"engine": "builders", "kind": "end-of-block call", "builder_order": if order == 0 { "with_block, with_staking" } else { "with_staking, with_block" }, "step": stepno, "calls": calls.iter().map(|c| format!("component {} with {:?}", c.0, c.1)).collect::<Vec<_>>(), "block_info": format!("{:?}", shown)}),
                    );
                }
            }
        }
    }
    let coverage = json!({
        "states": states,
        "transitions": transitions + nchains + chains_len as u64,
        "traces_validated_against_impl": states,
        "evaluations": evals,
        "distinct_nontrivial": states,
        "rule": "ContractWrapper: all ordered selections without repetition of {sudo|sudo_empty, reply|reply_empty, migrate|migrate_empty, checksum} for both constructors (generated code), each wrapper probed through the Contract trait; AppBuilder: generated chains from the default typestate (every sequence of <= 2 steps, rotations of the full order and of its reverse) and a BFS over all 2^11 component subsets of the all-tagged typestate in which every with_* step is validated from every state (frame condition per step); every built App is probed with one message / query / sudo per component kind",
        "exhaustive": true,
        "wrapper_chains": chains.len(), "builder_chains_from_defaults": nchains, "builder_bfs_states": seen.len(), "builder_bfs_transitions": transitions, "probe_entries": ENTRIES.len(),
        "caps_hit": [],
        "samples": [{"wrapper_chain": chains[chains.len() / 2].1, "constructor": chains[chains.len() / 2].0}, {"all_tagged_transcript": t1}, {"default_transcript": t_default}],
    });
    ctx.finish(coverage, vec!["component tags are observed through behaviour (responses, query answers, storage content); AppBuilder has no other field".into()])
}

pub fn replay_c20(ctx: &Ctx, _case: &Value) {
    // the whole check takes a fraction of a second: re-run it
    let quiet = Ctx::new("C20", Tier::Quick);
    let _ = &quiet;
    run_c20(ctx);
}
