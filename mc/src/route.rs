//! C17: every message and query reaches exactly the module configured for it.
//! Recording modules with a runtime accept|fail switch are plugged into the builder; messages
//! of every kind are sent from top level, from a contract typed for the chain's custom message,
//! and from an Empty-typed contract lifted by ContractWrapper::new_with_empty, one and two
//! levels deep, under every reply_on mode.

use crate::common::*;
use cosmwasm_schema::cw_serde;
use cosmwasm_std::testing::MockApi;
use cosmwasm_std::{
    coin, to_json_binary, Addr, AnyMsg, Api, BankMsg, BankQuery, Binary, BlockInfo, CosmosMsg, CustomMsg, CustomQuery, Deps, DepsMut, DistributionMsg, Empty, Env,
    Event, GovMsg, GrpcQuery, IbcMsg, IbcQuery, MessageInfo, Querier, QueryRequest, Reply, ReplyOn, Response, StakingMsg, StakingQuery, StdError, StdResult,
    Storage, SubMsg, VoteOption, WasmMsg, WasmQuery,
};
use cw_multi_test::error::AnyResult;
use cw_multi_test::{
    App, AppBuilder, AppResponse, Bank, BankKeeper, BankSudo, Contract, ContractWrapper, CosmosRouter, Distribution, Executor, Gov, Ibc, Module, Staking,
    StakingSudo, Stargate, WasmKeeper,
};
use rayon::prelude::*;
use serde::de::DeserializeOwned;
use serde_json::{json, Value};
use std::cell::RefCell;

#[cw_serde]
pub enum MyMsg {
    Ping { n: u32 },
}
impl CustomMsg for MyMsg {}

#[cw_serde]
pub enum MyQuery {
    Pong { n: u32 },
}
impl CustomQuery for MyQuery {}

// ---------------------------------------------------------------------------------------------
// out-of-band log and switches

#[derive(Clone, Debug, PartialEq, Eq)]
pub struct Rec {
    pub module: &'static str,
    pub op: &'static str,
    pub sender: String,
    pub payload: String,
}

thread_local! {
    static LOG: RefCell<Vec<Rec>> = const { RefCell::new(Vec::new()) };
    /// bit i set => module i fails
    static FAIL: RefCell<u32> = const { RefCell::new(0) };
    static SCRIPT: RefCell<Script> = RefCell::new(Script::default());
}

const MODS: [&str; 7] = ["bank", "custom", "staking", "distribution", "ibc", "gov", "stargate"];

fn fails(module: &str) -> bool {
    let i = MODS.iter().position(|m| *m == module).unwrap();
    FAIL.with(|f| *f.borrow() & (1 << i) != 0)
}

fn log(module: &'static str, op: &'static str, sender: &str, payload: String) {
    LOG.with(|l| l.borrow_mut().push(Rec { module, op, sender: sender.to_string(), payload }));
}

fn answer(module: &'static str) -> AnyResult<AppResponse> {
    if fails(module) {
        anyhow::bail!("module {} configured to fail", module)
    }
    Ok(AppResponse { events: vec![Event::new(format!("mod-{}", module)).add_attribute("handled_by", module)], data: Some(Binary::from(module.as_bytes())) })
}

fn answer_q(module: &'static str) -> AnyResult<Binary> {
    if fails(module) {
        anyhow::bail!("module {} configured to fail", module)
    }
    Ok(to_json_binary(&format!("answer-from-{}", module))?)
}

// ---------------------------------------------------------------------------------------------
// recording modules

pub struct RecBank(BankKeeper);
impl Module for RecBank {
    type ExecT = BankMsg;
    type QueryT = BankQuery;
    type SudoT = BankSudo;
    fn execute<ExecC, QueryC>(&self, api: &dyn Api, storage: &mut dyn Storage, router: &dyn CosmosRouter<ExecC = ExecC, QueryC = QueryC>, block: &BlockInfo, sender: Addr, msg: BankMsg) -> AnyResult<AppResponse>
    where
        ExecC: CustomMsg + DeserializeOwned + 'static,
        QueryC: CustomQuery + DeserializeOwned + 'static,
    {
        log("bank", "execute", sender.as_str(), format!("{:?}", msg));
        storage.set(b"module-bookkeeping-bank", b"1");
        if fails("bank") {
            anyhow::bail!("module bank configured to fail")
        }
        let mut r = self.0.execute(api, storage, router, block, sender, msg)?;
        r.data = Some(Binary::from(b"bank"));
        Ok(r)
    }
    fn query(&self, api: &dyn Api, storage: &dyn Storage, querier: &dyn Querier, block: &BlockInfo, request: BankQuery) -> AnyResult<Binary> {
        log("bank", "query", "", format!("{:?}", request));
        if fails("bank") {
            anyhow::bail!("module bank configured to fail")
        }
        self.0.query(api, storage, querier, block, request)
    }
    fn sudo<ExecC, QueryC>(&self, api: &dyn Api, storage: &mut dyn Storage, router: &dyn CosmosRouter<ExecC = ExecC, QueryC = QueryC>, block: &BlockInfo, msg: BankSudo) -> AnyResult<AppResponse>
    where
        ExecC: CustomMsg + DeserializeOwned + 'static,
        QueryC: CustomQuery + DeserializeOwned + 'static,
    {
        log("bank", "sudo", "", format!("{:?}", msg));
        self.0.sudo(api, storage, router, block, msg)
    }
}
impl Bank for RecBank {}

macro_rules! rec_module {
    ($name:ident, $tag:literal, $exec:ty, $query:ty, $sudo:ty) => {
        pub struct $name;
        impl Module for $name {
            type ExecT = $exec;
            type QueryT = $query;
            type SudoT = $sudo;
            fn execute<ExecC, QueryC>(&self, _api: &dyn Api, storage: &mut dyn Storage, _router: &dyn CosmosRouter<ExecC = ExecC, QueryC = QueryC>, _block: &BlockInfo, sender: Addr, msg: $exec) -> AnyResult<AppResponse>
            where
                ExecC: CustomMsg + DeserializeOwned + 'static,
                QueryC: CustomQuery + DeserializeOwned + 'static,
            {
                log($tag, "execute", sender.as_str(), format!("{:?}", msg));
                // the module's own bookkeeping, written before it decides: a refusal takes it back
                storage.set(concat!("module-bookkeeping-", $tag).as_bytes(), b"1");
                answer($tag)
            }
            fn query(&self, _api: &dyn Api, _storage: &dyn Storage, _querier: &dyn Querier, _block: &BlockInfo, request: $query) -> AnyResult<Binary> {
                log($tag, "query", "", format!("{:?}", request));
                answer_q($tag)
            }
            fn sudo<ExecC, QueryC>(&self, _api: &dyn Api, _storage: &mut dyn Storage, _router: &dyn CosmosRouter<ExecC = ExecC, QueryC = QueryC>, _block: &BlockInfo, msg: $sudo) -> AnyResult<AppResponse>
            where
                ExecC: CustomMsg + DeserializeOwned + 'static,
                QueryC: CustomQuery + DeserializeOwned + 'static,
            {
                log($tag, "sudo", "", format!("{:?}", msg));
                answer($tag)
            }
        }
    };
}

rec_module!(RecCustom, "custom", MyMsg, MyQuery, Empty);
rec_module!(RecStaking, "staking", StakingMsg, StakingQuery, StakingSudo);
rec_module!(RecDistr, "distribution", DistributionMsg, Empty, Empty);
rec_module!(RecIbc, "ibc", IbcMsg, IbcQuery, Empty);
rec_module!(RecGov, "gov", GovMsg, Empty, Empty);
impl Staking for RecStaking {}
impl Distribution for RecDistr {}
impl Ibc for RecIbc {}
impl Gov for RecGov {}

pub struct RecStargate;
impl Stargate for RecStargate {
    fn execute_stargate<ExecC, QueryC>(&self, _api: &dyn Api, storage: &mut dyn Storage, _router: &dyn CosmosRouter<ExecC = ExecC, QueryC = QueryC>, _block: &BlockInfo, sender: Addr, type_url: String, value: Binary) -> AnyResult<AppResponse>
    where
        ExecC: CustomMsg + DeserializeOwned + 'static,
        QueryC: CustomQuery + DeserializeOwned + 'static,
    {
        log("stargate", "execute_stargate", sender.as_str(), format!("{} {}", type_url, value));
        storage.set(b"module-bookkeeping-stargate", b"1");
        answer("stargate")
    }
    fn query_stargate(&self, _api: &dyn Api, _storage: &dyn Storage, _querier: &dyn Querier, _block: &BlockInfo, path: String, data: Binary) -> AnyResult<Binary> {
        log("stargate", "query_stargate", "", format!("{} {}", path, data));
        answer_q("stargate")
    }
    fn execute_any<ExecC, QueryC>(&self, _api: &dyn Api, storage: &mut dyn Storage, _router: &dyn CosmosRouter<ExecC = ExecC, QueryC = QueryC>, _block: &BlockInfo, sender: Addr, msg: AnyMsg) -> AnyResult<AppResponse>
    where
        ExecC: CustomMsg + DeserializeOwned + 'static,
        QueryC: CustomQuery + DeserializeOwned + 'static,
    {
        log("stargate", "execute_any", sender.as_str(), format!("{} {}", msg.type_url, msg.value));
        storage.set(b"module-bookkeeping-stargate", b"1");
        answer("stargate")
    }
    fn query_grpc(&self, _api: &dyn Api, _storage: &dyn Storage, _querier: &dyn Querier, _block: &BlockInfo, request: GrpcQuery) -> AnyResult<Binary> {
        log("stargate", "query_grpc", "", format!("{} {}", request.path, request.data));
        answer_q("stargate")
    }
}

/// The configured wasm module: the real keeper behind a recording wrapper that can veto the
/// message under test.
pub struct RecWasm(WasmKeeper<MyMsg, MyQuery>);
impl cw_multi_test::Wasm<MyMsg, MyQuery> for RecWasm {
    fn execute(&self, api: &dyn Api, storage: &mut dyn Storage, router: &dyn CosmosRouter<ExecC = MyMsg, QueryC = MyQuery>, block: &BlockInfo, sender: Addr, msg: WasmMsg) -> AnyResult<AppResponse> {
        log("wasm", "execute", sender.as_str(), format!("{:?}", msg));
        let under_test = matches!(&msg, WasmMsg::Execute { msg: m, .. } if m.as_slice() == to_json_binary(&Cmd { script: 9 }).unwrap().as_slice());
        if under_test && FAIL.with(|f| *f.borrow() & (1 << 7) != 0) {
            anyhow::bail!("module wasm configured to fail")
        }
        self.0.execute(api, storage, router, block, sender, msg)
    }
    fn query(&self, api: &dyn Api, storage: &dyn Storage, querier: &dyn Querier, block: &BlockInfo, request: WasmQuery) -> AnyResult<Binary> {
        log("wasm", "query", "", format!("{:?}", request));
        self.0.query(api, storage, querier, block, request)
    }
    fn sudo(&self, api: &dyn Api, storage: &mut dyn Storage, router: &dyn CosmosRouter<ExecC = MyMsg, QueryC = MyQuery>, block: &BlockInfo, msg: cw_multi_test::WasmSudo) -> AnyResult<AppResponse> {
        self.0.sudo(api, storage, router, block, msg)
    }
    fn store_code(&mut self, creator: Addr, code: Box<dyn Contract<MyMsg, MyQuery>>) -> u64 {
        self.0.store_code(creator, code)
    }
    fn store_code_with_id(&mut self, creator: Addr, code_id: u64, code: Box<dyn Contract<MyMsg, MyQuery>>) -> AnyResult<u64> {
        self.0.store_code_with_id(creator, code_id, code)
    }
    fn duplicate_code(&mut self, code_id: u64) -> AnyResult<u64> {
        self.0.duplicate_code(code_id)
    }
    fn contract_data(&self, storage: &dyn Storage, address: &Addr) -> AnyResult<cw_multi_test::ContractData> {
        self.0.contract_data(storage, address)
    }
    fn dump_wasm_raw(&self, storage: &dyn Storage, address: &Addr) -> Vec<cosmwasm_std::Record> {
        self.0.dump_wasm_raw(storage, address)
    }
}

type RApp = App<RecBank, MockApi, SnapStorage, RecCustom, RecWasm, RecStaking, RecDistr, RecIbc, RecGov, RecStargate>;

// ---------------------------------------------------------------------------------------------
// message / query kinds

pub const KINDS: [&str; 11] = ["bank", "wasm", "staking", "distribution", "custom", "ibc", "gov", "stargate", "any", "wasm-funded", "wasm-zero-funds"];

fn is_wasm(kind: &str) -> bool {
    kind.starts_with("wasm")
}

/// Funds attached to the wasm message under test: the transfer they imply is a bank message in
/// the sender's name and must go through the configured bank module like any other.
fn funds_of(kind: &str) -> Vec<cosmwasm_std::Coin> {
    match kind {
        "wasm-funded" => vec![coin(1, "x")],
        "wasm-zero-funds" => vec![coin(0, "x")],
        _ => vec![],
    }
}
pub const QKINDS: [&str; 7] = ["bank", "wasm", "custom", "staking", "ibc", "stargate", "grpc"];

fn module_of(kind: &str) -> &'static str {
    match kind {
        "bank" => "bank",
        "staking" => "staking",
        "distribution" => "distribution",
        "custom" => "custom",
        "ibc" => "ibc",
        "gov" => "gov",
        "stargate" | "any" | "grpc" => "stargate",
        _ => "wasm",
    }
}

fn op_of(kind: &str) -> &'static str {
    match kind {
        "stargate" => "execute_stargate",
        "any" => "execute_any",
        _ => "execute",
    }
}

/// The message of a kind for a chain whose custom type is C (`custom` gives the custom message).
fn msg_of<C: CustomMsg>(kind: &str, custom: Option<C>, callee: &str, recipient: &str) -> CosmosMsg<C> {
    match kind {
        "bank" => BankMsg::Send { to_address: recipient.to_string(), amount: vec![coin(1, "x")] }.into(),
        "wasm" | "wasm-funded" | "wasm-zero-funds" => WasmMsg::Execute { contract_addr: callee.to_string(), msg: to_json_binary(&Cmd { script: 9 }).unwrap(), funds: funds_of(kind) }.into(),
        "staking" => StakingMsg::Delegate { validator: "val".into(), amount: coin(7, "stake") }.into(),
        "distribution" => DistributionMsg::SetWithdrawAddress { address: recipient.to_string() }.into(),
        "custom" => CosmosMsg::Custom(custom.expect("custom message value")),
        "ibc" => IbcMsg::CloseChannel { channel_id: "channel-7".into() }.into(),
        "gov" => GovMsg::Vote { proposal_id: 7, option: VoteOption::NoWithVeto }.into(),
        #[allow(deprecated)]
        "stargate" => CosmosMsg::Stargate { type_url: "/some.Msg".into(), value: Binary::from(b"sg-payload") },
        "any" => CosmosMsg::Any(AnyMsg { type_url: "/any.Msg".into(), value: Binary::from(b"any-payload") }),
        _ => unreachable!(),
    }
}

/// Debug rendering of the module-level payload the module must receive for a kind.
fn payload_of(kind: &str, callee: &str, recipient: &str) -> String {
    let _ = callee;
    match kind {
        "bank" => format!("{:?}", BankMsg::Send { to_address: recipient.to_string(), amount: vec![coin(1, "x")] }),
        "staking" => format!("{:?}", StakingMsg::Delegate { validator: "val".into(), amount: coin(7, "stake") }),
        "distribution" => format!("{:?}", DistributionMsg::SetWithdrawAddress { address: recipient.to_string() }),
        "custom" => format!("{:?}", MyMsg::Ping { n: 7 }),
        "ibc" => format!("{:?}", IbcMsg::CloseChannel { channel_id: "channel-7".into() }),
        "gov" => format!("{:?}", GovMsg::Vote { proposal_id: 7, option: VoteOption::NoWithVeto }),
        "stargate" => format!("/some.Msg {}", Binary::from(b"sg-payload")),
        "any" => format!("/any.Msg {}", Binary::from(b"any-payload")),
        _ => String::new(),
    }
}

fn query_of<Q: CustomQuery>(kind: &str, custom: Option<Q>, callee: &str, who: &str) -> QueryRequest<Q> {
    match kind {
        "bank" => BankQuery::Balance { address: who.to_string(), denom: "x".into() }.into(),
        "wasm" => WasmQuery::Raw { contract_addr: callee.to_string(), key: Binary::from(b"k") }.into(),
        "custom" => QueryRequest::Custom(custom.expect("custom query value")),
        "staking" => StakingQuery::BondedDenom {}.into(),
        "ibc" => IbcQuery::PortId {}.into(),
        #[allow(deprecated)]
        "stargate" => QueryRequest::Stargate { path: "/some.Query".into(), data: Binary::from(b"q-payload") },
        "grpc" => QueryRequest::Grpc(GrpcQuery { path: "/grpc.Query".into(), data: Binary::from(b"g-payload") }),
        _ => unreachable!(),
    }
}

fn qpayload_of(kind: &str, who: &str) -> (String, &'static str) {
    match kind {
        "bank" => (format!("{:?}", BankQuery::Balance { address: who.to_string(), denom: "x".into() }), "query"),
        "custom" => (format!("{:?}", MyQuery::Pong { n: 7 }), "query"),
        "staking" => (format!("{:?}", StakingQuery::BondedDenom {}), "query"),
        "ibc" => (format!("{:?}", IbcQuery::PortId {}), "query"),
        "stargate" => (format!("/some.Query {}", Binary::from(b"q-payload")), "query_stargate"),
        "grpc" => (format!("/grpc.Query {}", Binary::from(b"g-payload")), "query_grpc"),
        _ => (String::new(), "query"),
    }
}

// ---------------------------------------------------------------------------------------------
// scripted contracts

#[cw_serde]
pub struct Cmd {
    /// 0: emit the case's message(s) (level-1 contract), 1: level-2 relay (calls the next contract
    /// with script 0), 9: plain callee (records, writes), 8: callee that fails, 5: issue the case's query
    pub script: u32,
}

#[derive(Clone, Debug, Default)]
pub struct Script {
    pub kind: String,
    pub mode: u8,
    pub with_earlier: bool,
    pub callee: String,
    pub callee_fails: bool,
    pub recipient: String,
    pub next: String,
    pub qkind: String,
    /// kind of a message the reply handler emits itself ("" = none)
    pub reply_emits: String,
}

fn reply_on(m: u8) -> ReplyOn {
    [ReplyOn::Never, ReplyOn::Success, ReplyOn::Error, ReplyOn::Always][m as usize].clone()
}

fn run_script<C: CustomMsg>(deps: DepsMut<impl CustomQuery>, env: &Env, info: &MessageInfo, cmd: &Cmd, flavour: &'static str, custom: Option<C>) -> Result<Response<C>, StdError> {
    let sc = SCRIPT.with(|s| s.borrow().clone());
    log("contract", flavour, info.sender.as_str(), format!("{} script={}", env.contract.address, cmd.script));
    match cmd.script {
        9 => {
            deps.storage.set(b"callee-write", b"1");
            if sc.callee_fails {
                return Err(StdError::generic_err("callee configured to fail"));
            }
            Ok(Response::new().set_data(b"callee"))
        }
        1 => {
            deps.storage.set(b"relay-write", b"1");
            let m: CosmosMsg<C> = WasmMsg::Execute { contract_addr: sc.next.clone(), msg: to_json_binary(&Cmd { script: 0 }).unwrap(), funds: vec![] }.into();
            Ok(Response::new().add_message(m))
        }
        _ => {
            deps.storage.set(b"own-write", b"1");
            let mut r = Response::new();
            if sc.with_earlier {
                let early: CosmosMsg<C> = WasmMsg::Execute { contract_addr: sc.callee.clone(), msg: to_json_binary(&Cmd { script: 7 }).unwrap(), funds: vec![] }.into();
                r = r.add_message(early);
            }
            let m = msg_of::<C>(&sc.kind, custom, &sc.callee, &sc.recipient);
            r = r.add_submessage(SubMsg { id: 77, payload: Binary::from(b"pl"), msg: m, gas_limit: None, reply_on: reply_on(sc.mode) });
            let late: CosmosMsg<C> = WasmMsg::Execute { contract_addr: sc.callee.clone(), msg: to_json_binary(&Cmd { script: 6 }).unwrap(), funds: vec![] }.into();
            Ok(r.add_message(late))
        }
    }
}

fn simple_callee<C: CustomMsg>(deps: DepsMut<impl CustomQuery>, cmd: &Cmd) -> Option<Result<Response<C>, StdError>> {
    match cmd.script {
        7 => {
            deps.storage.set(b"early-write", b"1");
            Some(Ok(Response::new()))
        }
        6 => {
            deps.storage.set(b"late-write", b"1");
            Some(Ok(Response::new()))
        }
        _ => None,
    }
}

// typed contract (chain's custom types)
fn t_execute(mut deps: DepsMut<MyQuery>, env: Env, info: MessageInfo, cmd: Cmd) -> Result<Response<MyMsg>, StdError> {
    if let Some(r) = simple_callee::<MyMsg>(deps.branch(), &cmd) {
        log("contract", "typed", info.sender.as_str(), format!("{} script={}", env.contract.address, cmd.script));
        return r;
    }
    if cmd.script == 5 {
        return t_query_inside(deps, env, info);
    }
    run_script::<MyMsg>(deps, &env, &info, &cmd, "typed", Some(MyMsg::Ping { n: 7 }))
}
fn t_query_inside(deps: DepsMut<MyQuery>, env: Env, info: MessageInfo) -> Result<Response<MyMsg>, StdError> {
    let sc = SCRIPT.with(|s| s.borrow().clone());
    log("contract", "typed", info.sender.as_str(), format!("{} script=5", env.contract.address));
    let rq = query_of::<MyQuery>(&sc.qkind, Some(MyQuery::Pong { n: 7 }), &sc.callee, &sc.recipient);
    let raw = deps.querier.raw_query(&cosmwasm_std::to_json_vec(&rq)?);
    Ok(Response::new().set_data(format!("{:?}", raw).into_bytes()))
}
fn t_instantiate(_deps: DepsMut<MyQuery>, _env: Env, _info: MessageInfo, _msg: Empty) -> Result<Response<MyMsg>, StdError> {
    Ok(Response::new())
}
fn t_query(_deps: Deps<MyQuery>, _env: Env, _msg: Empty) -> StdResult<Binary> {
    to_json_binary("typed-contract-query")
}
fn t_reply(deps: DepsMut<MyQuery>, env: Env, reply: Reply) -> Result<Response<MyMsg>, StdError> {
    deps.storage.set(b"reply-write", b"1");
    // (whether the text of a failure names the failure of the module that refused: "configured to
    // fail" is what every refusing module and callee of this harness says)
    let cause = match &reply.result {
        cosmwasm_std::SubMsgResult::Err(t) => t.contains("configured to fail") || t.contains("Cannot transfer empty coins amount"),
        cosmwasm_std::SubMsgResult::Ok(_) => false,
    };
    log("contract", "reply", "", format!("{} id={} ok={} payload={} cause_visible={}", env.contract.address, reply.id, reply.result.is_ok(), reply.payload, cause));
    let sc = SCRIPT.with(|s| s.borrow().clone());
    if !sc.reply_emits.is_empty() {
        return Ok(Response::new().add_message(msg_of::<MyMsg>(&sc.reply_emits, Some(MyMsg::Ping { n: 7 }), &sc.callee, &sc.recipient)));
    }
    Ok(Response::new())
}

// Empty-typed contract, lifted by the wrapper
fn e_execute(mut deps: DepsMut, env: Env, info: MessageInfo, cmd: Cmd) -> Result<Response, StdError> {
    if let Some(r) = simple_callee::<Empty>(deps.branch(), &cmd) {
        log("contract", "lifted", info.sender.as_str(), format!("{} script={}", env.contract.address, cmd.script));
        return r;
    }
    if cmd.script == 5 {
        let sc = SCRIPT.with(|s| s.borrow().clone());
        log("contract", "lifted", info.sender.as_str(), format!("{} script=5", env.contract.address));
        let rq = query_of::<Empty>(&sc.qkind, Some(Empty {}), &sc.callee, &sc.recipient);
        let raw = deps.querier.raw_query(&cosmwasm_std::to_json_vec(&rq)?);
        return Ok(Response::new().set_data(format!("{:?}", raw).into_bytes()));
    }
    run_script::<Empty>(deps, &env, &info, &cmd, "lifted", Some(Empty {}))
}
fn e_instantiate(_deps: DepsMut, _env: Env, _info: MessageInfo, _msg: Empty) -> Result<Response, StdError> {
    Ok(Response::new())
}
fn e_query(_deps: Deps, _env: Env, _msg: Empty) -> StdResult<Binary> {
    to_json_binary("lifted-contract-query")
}
fn e_reply(deps: DepsMut, env: Env, reply: Reply) -> Result<Response, StdError> {
    deps.storage.set(b"reply-write", b"1");
    // (whether the text of a failure names the failure of the module that refused: "configured to
    // fail" is what every refusing module and callee of this harness says)
    let cause = match &reply.result {
        cosmwasm_std::SubMsgResult::Err(t) => t.contains("configured to fail") || t.contains("Cannot transfer empty coins amount"),
        cosmwasm_std::SubMsgResult::Ok(_) => false,
    };
    log("contract", "reply", "", format!("{} id={} ok={} payload={} cause_visible={}", env.contract.address, reply.id, reply.result.is_ok(), reply.payload, cause));
    let sc = SCRIPT.with(|s| s.borrow().clone());
    if !sc.reply_emits.is_empty() && sc.reply_emits != "custom" {
        return Ok(Response::new().add_message(msg_of::<Empty>(&sc.reply_emits, Some(Empty {}), &sc.callee, &sc.recipient)));
    }
    Ok(Response::new())
}

fn t_migrate(deps: DepsMut<MyQuery>, env: Env, cmd: Cmd) -> Result<Response<MyMsg>, StdError> {
    let info = MessageInfo { sender: Addr::unchecked("<migrate>"), funds: vec![] };
    run_script::<MyMsg>(deps, &env, &info, &cmd, "typed", Some(MyMsg::Ping { n: 7 }))
}
fn t_sudo(deps: DepsMut<MyQuery>, env: Env, cmd: Cmd) -> Result<Response<MyMsg>, StdError> {
    let info = MessageInfo { sender: Addr::unchecked("<sudo>"), funds: vec![] };
    run_script::<MyMsg>(deps, &env, &info, &cmd, "typed", Some(MyMsg::Ping { n: 7 }))
}
fn e_migrate(deps: DepsMut, env: Env, cmd: Cmd) -> Result<Response, StdError> {
    let info = MessageInfo { sender: Addr::unchecked("<migrate>"), funds: vec![] };
    run_script::<Empty>(deps, &env, &info, &cmd, "lifted", Some(Empty {}))
}
fn e_sudo(deps: DepsMut, env: Env, cmd: Cmd) -> Result<Response, StdError> {
    let info = MessageInfo { sender: Addr::unchecked("<sudo>"), funds: vec![] };
    run_script::<Empty>(deps, &env, &info, &cmd, "lifted", Some(Empty {}))
}

fn typed_contract() -> Box<dyn Contract<MyMsg, MyQuery>> {
    Box::new(ContractWrapper::new(t_execute, t_instantiate, t_query).with_reply(t_reply).with_migrate(t_migrate).with_sudo(t_sudo))
}
/// the typed contract without reply entry point: a reply that is due cannot be delivered, which is
/// an error like any other (nothing is "handled")
fn typed_noreply_contract() -> Box<dyn Contract<MyMsg, MyQuery>> {
    Box::new(ContractWrapper::new(t_execute, t_instantiate, t_query))
}
fn lifted_contract() -> Box<dyn Contract<MyMsg, MyQuery>> {
    Box::new(ContractWrapper::new_with_empty(e_execute, e_instantiate, e_query).with_reply_empty(e_reply).with_migrate_empty(e_migrate).with_sudo_empty(e_sudo))
}

struct RWorld {
    app: RApp,
    code_typed: u64,
    code_lifted: u64,
    user: String,
    recipient: String,
    typed: String,
    lifted: String,
    typed2: String,
    callee: String,
    genesis: SnapStorage,
}

fn world() -> RWorld {
    let api = MockApi::default();
    let user = api.addr_make("user").into_string();
    let recipient = api.addr_make("recipient").into_string();
    let ua = Addr::unchecked(&user);
    let mut app: RApp = AppBuilder::new_custom()
        .with_storage(SnapStorage::new())
        .with_bank(RecBank(BankKeeper::new()))
        .with_custom(RecCustom)
        .with_wasm(RecWasm(WasmKeeper::new()))
        .with_staking(RecStaking)
        .with_distribution(RecDistr)
        .with_ibc(RecIbc)
        .with_gov(RecGov)
        .with_stargate(RecStargate)
        .build(|router, _, storage| {
            router.bank.0.init_balance(storage, &ua, vec![coin(100, "x")]).unwrap();
        });
    let ct = app.store_code(typed_contract());
    let cl = app.store_code(lifted_contract());
    let mk = |app: &mut RApp, code: u64, label: &str| app.instantiate_contract(code, Addr::unchecked(&user), &Empty {}, &[], label, Some(user.clone())).unwrap().into_string();
    let typed = mk(&mut app, ct, "typed");
    let lifted = mk(&mut app, cl, "lifted");
    let typed2 = mk(&mut app, ct, "typed2");
    let callee = mk(&mut app, ct, "callee");
    // contracts need coins for the bank kind
    for c in [&typed, &lifted, &typed2] {
        app.send_tokens(Addr::unchecked(&user), Addr::unchecked(c), &[coin(10, "x")]).unwrap();
    }
    let genesis = app.storage().clone();
    LOG.with(|l| l.borrow_mut().clear());
    RWorld { app, code_typed: ct, code_lifted: cl, user, recipient, typed, lifted, typed2, callee, genesis }
}

#[derive(Clone, Debug)]
struct Case {
    fail_mask: u32,
    kind: &'static str,
    /// 0 top level, 1 typed sub, 2 lifted sub, 3 deep typed (typed2 -> typed), 4 deep lifted (typed2 -> lifted),
    /// 5 / 6 emitted by the migrate entry point (typed / lifted), 7 / 8 by the sudo entry point (typed / lifted)
    origin: u8,
    mode: u8,
    with_earlier: bool,
    callee_fails: bool,
}

fn case_json(c: &Case) -> Value {
    json!({"engine": "route", "failing_modules": MODS.iter().copied().chain(["wasm (vetoes the message under test)"]).enumerate().filter(|(i, _)| c.fail_mask & (1 << i) != 0).map(|(_, m)| m).collect::<Vec<_>>(), "fail_mask": c.fail_mask,
           "message_kind": c.kind, "origin": (["top-level", "sub-message of a contract typed for the chain's custom message", "sub-message of an Empty-typed contract lifted by new_with_empty", "two levels deep, typed", "two levels deep, lifted", "emitted by the migrate entry point of a typed contract", "emitted by the migrate entry point of a lifted contract", "emitted by the sudo entry point of a typed contract", "emitted by the sudo entry point of a lifted contract"][c.origin as usize]),
           "origin_code": c.origin, "reply_on": (["never", "success", "error", "always"][c.mode as usize]), "mode": c.mode, "after_earlier_call_and_write": c.with_earlier, "wasm_callee_fails": c.callee_fails})
}

fn run_case(ctx: &Ctx, w: &mut RWorld, c: &Case) -> u64 {
    *w.app.storage_mut() = w.genesis.clone();
    w.app.storage_mut().data.retain(|k, _| !k.starts_with(b"module-bookkeeping-"));
    LOG.with(|l| l.borrow_mut().clear());
    FAIL.with(|f| *f.borrow_mut() = c.fail_mask);
    let emitter = match c.origin {
        1 | 3 | 5 | 7 => w.typed.clone(),
        2 | 4 | 6 | 8 => w.lifted.clone(),
        _ => w.user.clone(),
    };
    SCRIPT.with(|s| {
        *s.borrow_mut() = Script { kind: c.kind.into(), mode: c.mode, with_earlier: c.with_earlier, callee: w.callee.clone(), callee_fails: c.callee_fails, recipient: w.recipient.clone(), next: emitter.clone(), qkind: String::new(), reply_emits: String::new() }
    });
    let user = Addr::unchecked(&w.user);
    let before = w.app.storage().data.clone();
    let res = catch(|| match c.origin {
        0 => w.app.execute(user.clone(), msg_of::<MyMsg>(c.kind, Some(MyMsg::Ping { n: 7 }), &w.callee, &w.recipient)),
        1 | 2 => w.app.execute_contract(user.clone(), Addr::unchecked(&emitter), &Cmd { script: 0 }, &[]),
        5 | 6 => w.app.migrate_contract(user.clone(), Addr::unchecked(&emitter), &Cmd { script: 0 }, if c.origin == 5 { w.code_typed } else { w.code_lifted }),
        7 | 8 => w.app.wasm_sudo(Addr::unchecked(&emitter), &Cmd { script: 0 }),
        _ => w.app.execute_contract(user.clone(), Addr::unchecked(&w.typed2), &Cmd { script: 1 }, &[]),
    });
    FAIL.with(|f| *f.borrow_mut() = 0);
    let logv: Vec<Rec> = LOG.with(|l| std::mem::take(&mut *l.borrow_mut()));
    let cj = || case_json(c);
    let lifted_custom = c.kind == "custom" && matches!(c.origin, 2 | 4 | 6 | 8);
    let res = match res {
        Ok(r) => r,
        Err(p) => {
            let class = if lifted_custom { "c17:panic:custom-message-from-lifted-contract".to_string() } else { format!("c17:panic:{}-message-from-{}", c.kind, if matches!(c.origin, 2 | 4 | 6 | 8) { "lifted-contract" } else { "other-origin" }) };
            ctx.violation(&class, json!({"case": cj(), "panic": p, "expected": "the message is handed to the configured module"}));
            return 1;
        }
    };
    // expectations
    let module = module_of(c.kind);
    let vetoed = is_wasm(c.kind) && c.fail_mask & (1 << 7) != 0;
    // attached funds: the implied transfer is refused by a failing bank module, and an all-zero
    // amount is refused by the bank keeper behind the recording module ("empty coins amount")
    let funded = !funds_of(c.kind).is_empty();
    let bank_blocks = funded && !vetoed && (c.kind == "wasm-zero-funds" || c.fail_mask & (1 << MODS.iter().position(|m| *m == "bank").unwrap()) != 0);
    let module_fails = if is_wasm(c.kind) { c.callee_fails || vetoed || bank_blocks } else { c.fail_mask & (1 << MODS.iter().position(|m| *m == module).unwrap()) != 0 };
    let caught = c.origin != 0 && (c.mode == 2 || c.mode == 3);
    let want_ok = !module_fails || caught;
    let mut n = 1u64;
    // (1) exactly one record in the configured module, with the true sender and the payload unchanged; none elsewhere
    let module_recs: Vec<&Rec> = logv.iter().filter(|r| r.module != "contract" && r.module != "wasm").collect();
    // every wasm message of the transaction (the top-level call, relays, earlier/later siblings and
    // the message under test) must have passed through the configured wasm module exactly once
    // (a migrate is a wasm execute-path message too; a sudo does not pass through Wasm::execute)
    let contract_runs = logv.iter().filter(|r| r.module == "contract" && r.op != "reply").count() - (c.origin >= 7) as usize;
    let wasm_execs: Vec<&Rec> = logv.iter().filter(|r| r.module == "wasm" && r.op == "execute").collect();
    if wasm_execs.len() != contract_runs + vetoed as usize + bank_blocks as usize {
        ctx.violation("c17:routing:wasm-message-bypassed-the-configured-wasm-module", json!({"case": cj(), "contract_entry_invocations": contract_runs, "wasm_module_execute_records": wasm_execs.iter().map(|r| format!("{:?}", r)).collect::<Vec<_>>()}));
    }
    if !is_wasm(c.kind) {
        let expected_sender = emitter.clone();
        let want = Rec { module, op: op_of(c.kind), sender: expected_sender, payload: payload_of(c.kind, &w.callee, &w.recipient) };
        // (bank is also used for nothing else here: no funds are attached anywhere)
        if module_recs.len() != 1 || *module_recs[0] != want {
            ctx.violation(
                &format!("c17:routing:{}", c.kind),
                json!({"case": cj(), "expected_exactly_one_record": format!("{:?}", want), "module_records": module_recs.iter().map(|r| format!("{:?}", r)).collect::<Vec<_>>()}),
            );
        }
    } else {
        if !funded && !module_recs.is_empty() {
            ctx.violation("c17:routing:wasm-message-reached-another-module", json!({"case": cj(), "module_records": module_recs.iter().map(|r| format!("{:?}", r)).collect::<Vec<_>>()}));
        }
        if funded {
            // the transfer of the attached funds: one bank message in the emitter's name, unless the
            // wasm module refused the message before
            let want = Rec { module: "bank", op: "execute", sender: emitter.clone(), payload: format!("{:?}", BankMsg::Send { to_address: w.callee.clone(), amount: funds_of(c.kind) }) };
            let ok = if vetoed { module_recs.is_empty() } else { module_recs.len() == 1 && *module_recs[0] == want };
            if !ok {
                ctx.violation(
                    "c17:routing:attached-funds-not-through-the-configured-bank-module",
                    json!({"case": cj(), "expected": if vetoed { "no module record (the wasm module refused the message)".to_string() } else { format!("exactly one record {:?}", want) }, "module_records": module_recs.iter().map(|r| format!("{:?}", r)).collect::<Vec<_>>()}),
                );
            }
        }
        let under_test: Vec<&&Rec> = wasm_execs.iter().filter(|r| r.payload.contains("\"script\":9")).collect();
        if under_test.len() != 1 || under_test[0].sender != emitter {
            ctx.violation("c17:routing:wasm", json!({"case": cj(), "expected": format!("one execute record in the configured wasm module sent by {}", emitter), "got": under_test.iter().map(|r| format!("{:?}", r)).collect::<Vec<_>>()}));
        }
        let callee_recs: Vec<&Rec> = logv.iter().filter(|r| r.module == "contract" && r.payload == format!("{} script=9", w.callee)).collect();
        if vetoed || bank_blocks {
            if !callee_recs.is_empty() {
                ctx.violation("c17:routing:wasm-callee-ran-despite-module-failure", json!({"case": cj(), "failing_module": if vetoed { "wasm" } else { "bank (transfer of the attached funds)" }}));
            }
        } else if callee_recs.len() != 1 || callee_recs[0].sender != emitter {
            ctx.violation("c17:routing:wasm", json!({"case": cj(), "expected": format!("callee {} invoked once by {}", w.callee, emitter), "got": callee_recs.iter().map(|r| format!("{:?}", r)).collect::<Vec<_>>()}));
        }
    }
    // (2) the caller sees the module's Ok/Err
    n += 1;
    if res.is_ok() != want_ok {
        ctx.violation(
            &format!("c17:outcome:{}", if want_ok { "module-success-not-seen" } else { "module-failure-not-seen" }),
            json!({"case": cj(), "module_fails": module_fails, "caught_by_reply_on": caught, "result": res.as_ref().map(|_| "Ok").map_err(|e| format!("{:#}", e))}),
        );
    }
    if c.origin == 0 {
        if let Ok(r) = &res {
            if !is_wasm(c.kind) && r.data.as_ref().map(|d| d.to_vec()) != Some(module.as_bytes().to_vec()) {
                ctx.violation("c17:outcome:module-response-not-returned", json!({"case": cj(), "data": r.data.as_ref().map(|d| show(d))}));
            }
        }
    }
    // (3) a failing module aborts the transaction unless caught
    n += 1;
    if !want_ok {
        if w.app.storage().data != before {
            ctx.violation("c17:failed-module-left-state", json!({"case": cj()}));
        }
        // the refusal aborts at once: the message the emitter listed AFTER the refused one is handed to nobody
        let after: Vec<&Rec> = logv.iter().filter(|r| r.payload.ends_with("script=6") || r.payload.contains("\"script\":6")).collect();
        if !after.is_empty() {
            ctx.violation("c17:message-after-a-refused-one-was-still-delivered", json!({"case": cj(), "records": after.iter().map(|r| format!("{:?}", r)).collect::<Vec<_>>()}));
        }
    } else if c.origin != 0 && res.is_ok() {
        // reply invoked exactly per reply_on, and the surrounding writes are all there
        let replies: Vec<&Rec> = logv.iter().filter(|r| r.module == "contract" && r.op == "reply").collect();
        let want_reply = (module_fails && (c.mode == 2 || c.mode == 3)) || (!module_fails && (c.mode == 1 || c.mode == 3));
        if replies.len() != want_reply as usize {
            ctx.violation("c17:reply-per-reply_on", json!({"case": cj(), "replies": replies.iter().map(|r| format!("{:?}", r)).collect::<Vec<_>>(), "expected": want_reply}));
        } else if let Some(r) = replies.first() {
            // the failure the reply is told about is the refusing module's own failure
            let want_payload = format!("{} id=77 ok={} payload={} cause_visible={}", emitter, !module_fails, Binary::from(b"pl"), module_fails);
            if r.payload != want_payload {
                ctx.violation("c17:reply-content", json!({"case": cj(), "got": r.payload, "want": want_payload}));
            }
        }
        // a refusal that was caught: what the refusing module wrote before it refused is gone
        if module_fails {
            let refusing = if is_wasm(c.kind) { "bank" } else { module };
            let key = format!("module-bookkeeping-{}", refusing).into_bytes();
            if w.app.storage().data.contains_key(&key) {
                ctx.violation("c17:failed-module-left-state:caught-refusal", json!({"case": cj(), "detail": "the transaction went on after the refusal was caught, and kept what the refusing module had written before it refused", "module": refusing}));
            }
        }
        let has = |addr: &str, key: &[u8]| w.app.contract_storage(&Addr::unchecked(addr)).get(key).is_some();
        if !has(&emitter, b"own-write") || !has(&w.callee, b"late-write") || (c.with_earlier && !has(&w.callee, b"early-write")) {
            ctx.violation("c17:surrounding-effects-lost", json!({"case": cj()}));
        }
    }
    n
}

fn run_query_case(ctx: &Ctx, w: &mut RWorld, qkind: &'static str, origin: u8, fail_mask: u32) -> u64 {
    *w.app.storage_mut() = w.genesis.clone();
    LOG.with(|l| l.borrow_mut().clear());
    SCRIPT.with(|s| *s.borrow_mut() = Script { qkind: qkind.into(), callee: w.callee.clone(), recipient: w.recipient.clone(), ..Default::default() });
    FAIL.with(|f| *f.borrow_mut() = fail_mask);
    let before = w.app.storage().data.clone();
    let writes0 = snap_writes();
    let cj = || json!({"engine": "route", "query_kind": qkind, "origin": (["top-level", "inside typed contract", "inside lifted contract"][origin as usize]), "origin_code": origin, "fail_mask": fail_mask});
    let res: Result<String, String> = catch(|| match origin {
        0 => {
            let rq = query_of::<MyQuery>(qkind, Some(MyQuery::Pong { n: 7 }), &w.callee, &w.recipient);
            format!("{:?}", w.app.raw_query(&cosmwasm_std::to_json_vec(&rq).unwrap()))
        }
        o => {
            let target = if o == 1 { w.typed.clone() } else { w.lifted.clone() };
            match w.app.execute_contract(Addr::unchecked(&w.user), Addr::unchecked(target), &Cmd { script: 5 }, &[]) {
                Ok(r) => String::from_utf8_lossy(&r.data.unwrap_or_default()).to_string(),
                Err(e) => format!("tx-error {:#}", e),
            }
        }
    });
    FAIL.with(|f| *f.borrow_mut() = 0);
    let logv: Vec<Rec> = LOG.with(|l| std::mem::take(&mut *l.borrow_mut()));
    let res = match res {
        Ok(r) => r,
        Err(p) => {
            ctx.violation(&format!("c17:panic:{}-query", qkind), json!({"case": cj(), "panic": p}));
            return 1;
        }
    };
    if origin == 0 && (w.app.storage().data != before || snap_writes() != writes0) {
        ctx.violation("c17:query-changed-state", json!({"case": cj()}));
    }
    let module = module_of(qkind);
    // (the transaction that carries a query from inside a contract is itself a wasm execute)
    let module_recs: Vec<&Rec> = logv.iter().filter(|r| r.module != "contract" && !(r.module == "wasm" && r.op == "execute")).collect();
    // a custom query from a lifted contract cannot be expressed in the chain's query type: not asserted
    if qkind == "custom" && origin == 2 {
        return 1;
    }
    if qkind != "wasm" {
        let (payload, op) = qpayload_of(qkind, &w.recipient);
        let want = Rec { module, op, sender: String::new(), payload };
        if module_recs.len() != 1 || *module_recs[0] != want {
            ctx.violation(&format!("c17:query-routing:{}", qkind), json!({"case": cj(), "expected_exactly_one_record": format!("{:?}", want), "module_records": module_recs.iter().map(|r| format!("{:?}", r)).collect::<Vec<_>>()}));
        }
        let module_fails = fail_mask & (1 << MODS.iter().position(|m| *m == module).unwrap()) != 0;
        let saw_ok = res.contains("Ok(Ok(");
        if saw_ok == module_fails {
            ctx.violation(&format!("c17:query-outcome:{}", qkind), json!({"case": cj(), "module_fails": module_fails, "answer": res}));
        }
        if !module_fails && qkind != "bank" && !res.contains(&format!("{:?}", to_json_binary(&format!("answer-from-{}", module)).unwrap())) {
            ctx.violation(&format!("c17:query-answer-not-from-module:{}", qkind), json!({"case": cj(), "answer": res}));
        }
    } else if module_recs.len() != 1 || module_recs[0].module != "wasm" || module_recs[0].op != "query" {
        ctx.violation("c17:query-routing:wasm-query-not-exactly-once-in-the-wasm-module", json!({"case": cj(), "module_records": module_recs.iter().map(|r| format!("{:?}", r)).collect::<Vec<_>>()}));
    }
    2
}

// ---------------------------------------------------------------------------------------------
// the library's own accepting / failing modules, in every combination

/// One combination of stock modules (custom, ibc, gov, stargate: each the accepting or the failing
/// one of the library). Every message and query kind those modules serve, from top level and from
/// typed / lifted contracts under every reply_on mode: the caller sees success exactly when the
/// configured module is the accepting one; a failure aborts the transaction unless caught.
fn stock_stage<CM, IB, GV, SG>(ctx: &Ctx, custom: CM, ibc: IB, gov: GV, sg: SG, accepts: [bool; 4]) -> u64
where
    CM: Module<ExecT = MyMsg, QueryT = MyQuery, SudoT = Empty>,
    IB: Ibc,
    GV: Gov,
    SG: Stargate,
{
    let api = MockApi::default();
    let user = api.addr_make("user").into_string();
    let recipient = api.addr_make("recipient").into_string();
    let ua = Addr::unchecked(&user);
    let mut app = AppBuilder::new_custom()
        .with_storage(SnapStorage::new())
        .with_custom(custom)
        .with_wasm(WasmKeeper::<MyMsg, MyQuery>::new())
        .with_ibc(ibc)
        .with_gov(gov)
        .with_stargate(sg)
        .build(|router, _, storage| {
            router.bank.init_balance(storage, &ua, vec![coin(100, "x")]).unwrap();
        });
    let ct = app.store_code(typed_contract());
    let cl = app.store_code(lifted_contract());
    let typed = app.instantiate_contract(ct, ua.clone(), &Empty {}, &[], "typed", None).unwrap().into_string();
    let lifted = app.instantiate_contract(cl, ua.clone(), &Empty {}, &[], "lifted", None).unwrap().into_string();
    let callee = app.instantiate_contract(ct, ua.clone(), &Empty {}, &[], "callee", None).unwrap().into_string();
    let cn = app.store_code(typed_noreply_contract());
    let noreply = app.instantiate_contract(cn, ua.clone(), &Empty {}, &[], "noreply", None).unwrap().into_string();
    let genesis = app.storage().clone();
    let accepts_of = |kind: &str| match kind {
        "custom" => accepts[0],
        "ibc" => accepts[1],
        "gov" => accepts[2],
        _ => accepts[3],
    };
    let combo = json!({"custom": if accepts[0] { "AcceptingModule" } else { "FailingModule" }, "ibc": if accepts[1] { "IbcAcceptingModule" } else { "IbcFailingModule" }, "gov": if accepts[2] { "GovAcceptingModule" } else { "GovFailingModule" }, "stargate": if accepts[3] { "StargateAccepting" } else { "StargateFailing" }});
    let mut n = 0u64;
    for kind in ["custom", "ibc", "gov", "stargate", "any"] {
        for origin in 0..4u8 {
            // Custom(Empty) from a lifted contract: the recorded known finding of the main stage
            if kind == "custom" && origin == 2 {
                continue;
            }
            let modes: Vec<u8> = if origin == 0 { vec![0] } else { vec![0, 1, 2, 3] };
            for mode in modes {
                *app.storage_mut() = genesis.clone();
                LOG.with(|l| l.borrow_mut().clear());
                SCRIPT.with(|s| *s.borrow_mut() = Script { kind: kind.into(), mode, callee: callee.clone(), recipient: recipient.clone(), ..Default::default() });
                let emitter = match origin {
                    0 => user.clone(),
                    1 => typed.clone(),
                    2 => lifted.clone(),
                    _ => noreply.clone(),
                };
                let case = || json!({"engine": "route-stock-modules", "modules": combo, "message_kind": kind, "origin": (["top-level", "typed contract", "lifted contract", "typed contract without reply entry point"][origin as usize]), "reply_on": (["never", "success", "error", "always"][mode as usize])});
                let before = app.storage().data.clone();
                let res = catch(|| match origin {
                    0 => app.execute(ua.clone(), msg_of::<MyMsg>(kind, Some(MyMsg::Ping { n: 7 }), &callee, &recipient)),
                    _ => app.execute_contract(ua.clone(), Addr::unchecked(&emitter), &Cmd { script: 0 }, &[]),
                });
                let logv: Vec<Rec> = LOG.with(|l| std::mem::take(&mut *l.borrow_mut()));
                n += 1;
                let res = match res {
                    Ok(r) => r,
                    Err(p) => {
                        ctx.violation(&format!("c17:panic:stock-modules:{}", kind), json!({"case": case(), "panic": p}));
                        continue;
                    }
                };
                let accepting = accepts_of(kind);
                let caught = (origin == 1 || origin == 2) && (mode == 2 || mode == 3);
                // without reply entry point every reply that is due fails the transaction
                let want_ok = if origin == 3 { accepting && (mode == 0 || mode == 2) } else { accepting || caught };
                if res.is_ok() != want_ok {
                    ctx.violation(
                        &format!("c17:stock-modules:{}", if want_ok { "accepting-module-not-seen" } else { "failing-module-not-seen" }),
                        json!({"case": case(), "configured_module_accepts": accepting, "caught_by_reply_on": caught, "result": res.as_ref().map(|_| "Ok").map_err(|e| format!("{:#}", e))}),
                    );
                    continue;
                }
                if !want_ok {
                    if app.storage().data != before {
                        ctx.violation("c17:failed-module-left-state", json!({"case": case()}));
                    }
                } else if origin != 0 {
                    let replies = logv.iter().filter(|r| r.module == "contract" && r.op == "reply").count();
                    let want_reply = origin != 3 && ((!accepting && (mode == 2 || mode == 3)) || (accepting && (mode == 1 || mode == 3)));
                    if replies != want_reply as usize {
                        ctx.violation("c17:reply-per-reply_on", json!({"case": case(), "replies": replies, "expected": want_reply}));
                    }
                    let has = |addr: &str, key: &[u8]| app.contract_storage(&Addr::unchecked(addr)).get(key).is_some();
                    if !has(&emitter, b"own-write") || !has(&callee, b"late-write") {
                        ctx.violation("c17:surrounding-effects-lost", json!({"case": case()}));
                    }
                }
            }
        }
    }
    for qkind in ["custom", "ibc", "stargate", "grpc"] {
        for origin in 0..3u8 {
            if qkind == "custom" && origin == 2 {
                continue;
            }
            *app.storage_mut() = genesis.clone();
            LOG.with(|l| l.borrow_mut().clear());
            SCRIPT.with(|s| *s.borrow_mut() = Script { qkind: qkind.into(), callee: callee.clone(), recipient: recipient.clone(), ..Default::default() });
            let case = || json!({"engine": "route-stock-modules", "modules": combo, "query_kind": qkind, "origin": (["top-level", "inside typed contract", "inside lifted contract"][origin as usize])});
            let before = app.storage().data.clone();
            let res: Result<String, String> = catch(|| match origin {
                0 => {
                    let rq = query_of::<MyQuery>(qkind, Some(MyQuery::Pong { n: 7 }), &callee, &recipient);
                    format!("{:?}", app.raw_query(&cosmwasm_std::to_json_vec(&rq).unwrap()))
                }
                o => match app.execute_contract(ua.clone(), Addr::unchecked(if o == 1 { &typed } else { &lifted }), &Cmd { script: 5 }, &[]) {
                    Ok(r) => String::from_utf8_lossy(&r.data.unwrap_or_default()).to_string(),
                    Err(e) => format!("tx-error {:#}", e),
                },
            });
            n += 1;
            let res = match res {
                Ok(r) => r,
                Err(p) => {
                    ctx.violation(&format!("c17:panic:stock-modules:{}-query", qkind), json!({"case": case(), "panic": p}));
                    continue;
                }
            };
            if origin == 0 && app.storage().data != before {
                ctx.violation("c17:query-changed-state", json!({"case": case()}));
            }
            let accepting = accepts_of(if qkind == "grpc" { "stargate" } else { qkind });
            if res.contains("Ok(Ok(") != accepting {
                ctx.violation(&format!("c17:stock-modules:query-outcome:{}", qkind), json!({"case": case(), "configured_module_accepts": accepting, "answer": res}));
            }
        }
    }
    n
}

fn stock_modules(ctx: &Ctx) -> u64 {
    use cw_multi_test::{AcceptingModule, FailingModule, GovAcceptingModule, GovFailingModule, IbcAcceptingModule, IbcFailingModule, StargateAccepting, StargateFailing};
    let mut n = 0u64;
    macro_rules! combo {
        ($c:expr, $ca:expr, $i:expr, $ia:expr, $g:expr, $ga:expr, $s:expr, $sa:expr) => {
            n += stock_stage(ctx, $c, $i, $g, $s, [$ca, $ia, $ga, $sa]);
        };
    }
    macro_rules! with_sg {
        ($c:expr, $ca:expr, $i:expr, $ia:expr, $g:expr, $ga:expr) => {
            combo!($c, $ca, $i, $ia, $g, $ga, StargateAccepting, true);
            combo!($c, $ca, $i, $ia, $g, $ga, StargateFailing, false);
        };
    }
    macro_rules! with_gov {
        ($c:expr, $ca:expr, $i:expr, $ia:expr) => {
            with_sg!($c, $ca, $i, $ia, GovAcceptingModule::new(), true);
            with_sg!($c, $ca, $i, $ia, GovFailingModule::new(), false);
        };
    }
    macro_rules! with_ibc {
        ($c:expr, $ca:expr) => {
            with_gov!($c, $ca, IbcAcceptingModule::new(), true);
            with_gov!($c, $ca, IbcFailingModule::new(), false);
        };
    }
    with_ibc!(AcceptingModule::<MyMsg, MyQuery, Empty>::new(), true);
    with_ibc!(FailingModule::<MyMsg, MyQuery, Empty>::new(), false);
    n
}

/// User-facing helpers of the `Executor` trait: what the configured module receives must be the
/// message the helper's arguments describe - sender, code id, admin, label, salt, message bytes
/// and funds intact ("handed with sender and payload intact").
fn helper_cases() -> Vec<(u8, u8, u8)> {
    let mut v = vec![];
    for helper in 0..5u8 {
        for funds in 0..3u8 {
            for admin in 0..2u8 {
                if (helper >= 3 && admin > 0) || (helper == 3 && funds > 0) {
                    continue;
                }
                v.push((helper, funds, admin));
            }
        }
    }
    v
}

fn run_helper_case(ctx: &Ctx, w: &mut RWorld, hc: (u8, u8, u8)) -> u64 {
    let (helper, fi, ai) = hc;
    *w.app.storage_mut() = w.genesis.clone();
    LOG.with(|l| l.borrow_mut().clear());
    FAIL.with(|f| *f.borrow_mut() = 0);
    SCRIPT.with(|s| *s.borrow_mut() = Script { kind: "bank".into(), callee: w.callee.clone(), recipient: w.recipient.clone(), next: w.typed.clone(), ..Script::default() });
    let user = Addr::unchecked(&w.user);
    let funds: Vec<cosmwasm_std::Coin> = [vec![], vec![coin(1, "x")], vec![coin(3, "x")]][fi as usize].clone();
    let admin: Option<String> = if ai == 1 { Some(w.recipient.clone()) } else { None };
    let name = ["instantiate_contract", "instantiate2_contract", "execute_contract", "migrate_contract", "send_tokens"][helper as usize];
    let cj = json!({"engine": "route", "helper": name, "helper_code": helper, "funds_code": fi, "admin_code": ai, "funds": format!("{:?}", funds), "admin": admin});
    let (module, want_payload): (&'static str, String) = match helper {
        0 => ("wasm", format!("{:?}", WasmMsg::Instantiate { admin: admin.clone(), code_id: w.code_typed, msg: to_json_binary(&Empty {}).unwrap(), funds: funds.clone(), label: "fresh-label".into() })),
        1 => ("wasm", format!("{:?}", WasmMsg::Instantiate2 { admin: admin.clone(), code_id: w.code_typed, label: "fresh-label".into(), msg: to_json_binary(&Empty {}).unwrap(), funds: funds.clone(), salt: Binary::from(b"salt-17") })),
        2 => ("wasm", format!("{:?}", WasmMsg::Execute { contract_addr: w.callee.clone(), msg: to_json_binary(&Cmd { script: 6 }).unwrap(), funds: funds.clone() })),
        3 => ("wasm", format!("{:?}", WasmMsg::Migrate { contract_addr: w.typed.clone(), new_code_id: w.code_typed, msg: to_json_binary(&Cmd { script: 6 }).unwrap() })),
        _ => ("bank", format!("{:?}", BankMsg::Send { to_address: w.recipient.clone(), amount: funds.clone() })),
    };
    let res = catch(|| match helper {
        0 => w.app.instantiate_contract(w.code_typed, user.clone(), &Empty {}, &funds, "fresh-label", admin.clone()).map(|_| ()),
        1 => w.app.instantiate2_contract(w.code_typed, user.clone(), &Empty {}, &funds, "fresh-label", admin.clone(), Binary::from(b"salt-17")).map(|_| ()),
        2 => w.app.execute_contract(user.clone(), Addr::unchecked(&w.callee), &Cmd { script: 6 }, &funds).map(|_| ()),
        3 => w.app.migrate_contract(user.clone(), Addr::unchecked(&w.typed), &Cmd { script: 6 }, w.code_typed).map(|_| ()),
        _ => w.app.send_tokens(user.clone(), Addr::unchecked(&w.recipient), &funds).map(|_| ()),
    });
    let logv: Vec<Rec> = LOG.with(|l| std::mem::take(&mut *l.borrow_mut()));
    if let Err(p) = &res {
        ctx.violation(&format!("c17:panic:helper-{}", name), json!({"case": cj, "panic": p}));
        return 1;
    }
    let first: Vec<&Rec> = logv.iter().filter(|r| r.module == module && r.op == "execute").take(1).collect();
    let want = Rec { module, op: "execute", sender: w.user.clone(), payload: want_payload };
    if first.len() != 1 || *first[0] != want {
        ctx.violation(&format!("c17:helper-message-not-intact:{}", name), json!({"case": cj, "expected_first_record_in_the_configured_module": format!("{:?}", want), "got": first.iter().map(|r| format!("{:?}", r)).collect::<Vec<_>>(), "all_records": logv.iter().map(|r| format!("{:?}", r)).collect::<Vec<_>>()}));
    }
    // attached funds travel as one bank message in the sender's name to the contract
    if module == "wasm" && !funds.is_empty() {
        let banks: Vec<&Rec> = logv.iter().filter(|r| r.module == "bank" && r.op == "execute").collect();
        let ok = banks.len() == 1 && banks[0].sender == w.user && banks[0].payload.contains(&format!("{:?}", funds));
        if !ok {
            ctx.violation("c17:routing:attached-funds-not-through-the-configured-bank-module", json!({"case": cj, "bank_records": banks.iter().map(|r| format!("{:?}", r)).collect::<Vec<_>>()}));
        }
    }
    2
}

/// Several messages in one transaction (`execute_multi`): every message reaches its module in
/// order, and a module that refuses the last one aborts the whole transaction - what the earlier
/// messages (a contract call that writes, a bank transfer) did is gone.
fn run_multi_case(ctx: &Ctx, w: &mut RWorld, kind: &'static str, fail: bool) -> u64 {
    *w.app.storage_mut() = w.genesis.clone();
    LOG.with(|l| l.borrow_mut().clear());
    let module = module_of(kind);
    let bit = if is_wasm(kind) { 1u32 << 7 } else { 1u32 << MODS.iter().position(|m| *m == module).unwrap() };
    FAIL.with(|f| *f.borrow_mut() = if fail { bit } else { 0 });
    SCRIPT.with(|s| *s.borrow_mut() = Script { kind: kind.into(), callee: w.callee.clone(), recipient: w.recipient.clone(), next: w.typed.clone(), ..Script::default() });
    let user = Addr::unchecked(&w.user);
    let before = w.app.storage().data.clone();
    let first: CosmosMsg<MyMsg> = WasmMsg::Execute { contract_addr: w.callee.clone(), msg: to_json_binary(&Cmd { script: 6 }).unwrap(), funds: vec![] }.into();
    let second: CosmosMsg<MyMsg> = BankMsg::Send { to_address: w.callee.clone(), amount: vec![coin(2, "x")] }.into();
    let third = msg_of::<MyMsg>(kind, Some(MyMsg::Ping { n: 7 }), &w.callee, &w.recipient);
    let res = catch(|| w.app.execute_multi(user.clone(), vec![first, second, third]));
    FAIL.with(|f| *f.borrow_mut() = 0);
    let logv: Vec<Rec> = LOG.with(|l| std::mem::take(&mut *l.borrow_mut()));
    let cj = json!({"engine": "route", "multi": true, "message_kind": kind, "third_message_module_fails": fail, "messages": ["wasm execute (callee writes)", "bank send 2x to the callee", format!("the {} message", kind)]});
    let res = match res {
        Ok(r) => r,
        Err(p) => {
            ctx.violation("c17:panic:execute_multi", json!({"case": cj, "panic": p}));
            return 1;
        }
    };
    // bank with a failing bank module: the second message is refused already
    let bank_fails = fail && module == "bank";
    let want_ok = !fail;
    if res.is_ok() != want_ok {
        ctx.violation(&format!("c17:outcome:{}", if want_ok { "module-success-not-seen" } else { "module-failure-not-seen" }), json!({"case": cj, "result": res.as_ref().map(|_| "Ok").map_err(|e| format!("{:#}", e))}));
    }
    if !want_ok && w.app.storage().data != before {
        ctx.violation("c17:failed-module-left-state", json!({"case": cj, "detail": "the transaction failed but earlier messages of it left their effects"}));
    }
    if want_ok {
        let has = w.app.contract_storage(&Addr::unchecked(&w.callee)).get(b"late-write").is_some();
        if !has {
            ctx.violation("c17:surrounding-effects-lost", json!({"case": cj}));
        }
    }
    // the third message reached its module exactly once (unless the bank refused the second)
    if !is_wasm(kind) && !bank_fails {
        let want = Rec { module, op: op_of(kind), sender: w.user.clone(), payload: payload_of(kind, &w.callee, &w.recipient) };
        let got: Vec<&Rec> = logv.iter().filter(|r| **r == want).collect();
        if got.len() != 1 {
            ctx.violation(&format!("c17:routing:{}", kind), json!({"case": cj, "expected_exactly_one_record": format!("{:?}", want), "all_records": logv.iter().map(|r| format!("{:?}", r)).collect::<Vec<_>>()}));
        }
    }
    3
}

/// The reply handler answers with a message of its own: a sub-message of kind A is refused (or
/// accepted) by its module, the emitter's reply is told so and emits a message of kind B. B reaches
/// its module like any other message; a module refusing B aborts the transaction, and the failure
/// the caller is shown is B's module's, not the one that was already handled.
fn run_reply_emits_case(ctx: &Ctx, w: &mut RWorld, a: &'static str, a_fails: bool, b: &'static str, b_fails: bool, lifted: bool) -> u64 {
    *w.app.storage_mut() = w.genesis.clone();
    w.app.storage_mut().data.retain(|k, _| !k.starts_with(b"module-bookkeeping-"));
    LOG.with(|l| l.borrow_mut().clear());
    let bit = |k: &str| 1u32 << MODS.iter().position(|m| *m == module_of(k)).unwrap();
    FAIL.with(|f| *f.borrow_mut() = (if a_fails { bit(a) } else { 0 }) | (if b_fails { bit(b) } else { 0 }));
    let emitter = if lifted { w.lifted.clone() } else { w.typed.clone() };
    SCRIPT.with(|s| *s.borrow_mut() = Script { kind: a.into(), mode: 3, with_earlier: false, callee: w.callee.clone(), callee_fails: false, recipient: w.recipient.clone(), next: emitter.clone(), qkind: String::new(), reply_emits: b.into() });
    let before = w.app.storage().data.clone();
    let user = Addr::unchecked(&w.user);
    let res = catch(|| w.app.execute_contract(user, Addr::unchecked(&emitter), &Cmd { script: 0 }, &[]));
    FAIL.with(|f| *f.borrow_mut() = 0);
    let logv: Vec<Rec> = LOG.with(|l| std::mem::take(&mut *l.borrow_mut()));
    let cj = json!({"engine": "route", "reply_emits": true, "sub_message_kind": a, "its_module_refuses": a_fails, "reply_emits_kind": b, "that_module_refuses": b_fails, "emitter": if lifted { "lifted" } else { "typed" }});
    let res = match res {
        Ok(r) => r,
        Err(p) => {
            ctx.violation("c17:panic:reply-emits", json!({"case": cj, "panic": p}));
            return 1;
        }
    };
    // B was handed to its module exactly once, in the emitter's name
    let want = Rec { module: module_of(b), op: op_of(b), sender: emitter.clone(), payload: payload_of(b, &w.callee, &w.recipient) };
    if logv.iter().filter(|r| **r == want).count() != 1 {
        ctx.violation(&format!("c17:routing:{}", b), json!({"case": cj, "expected_exactly_one_record": format!("{:?}", want), "all_records": logv.iter().map(|r| format!("{:?}", r)).collect::<Vec<_>>()}));
    }
    if res.is_ok() == b_fails {
        ctx.violation(&format!("c17:outcome:{}", if b_fails { "module-failure-not-seen" } else { "module-success-not-seen" }), json!({"case": cj, "result": res.as_ref().map(|_| "Ok").map_err(|e| format!("{:#}", e))}));
    }
    if let Err(e) = &res {
        let text = format!("{:#}", e);
        let names_b = text.contains(&format!("module {} configured to fail", module_of(b)));
        if b_fails && !names_b {
            ctx.violation("c17:outcome:caller-shown-another-module's-failure", json!({"case": cj, "error_shown": text, "expected_to_name": format!("module {} configured to fail", module_of(b))}));
        }
        if w.app.storage().data != before {
            ctx.violation("c17:failed-module-left-state", json!({"case": cj}));
        }
    }
    3
}

fn cases(tier: Tier) -> Vec<Case> {
    let mut v = vec![];
    let masks: Vec<u32> = match tier {
        Tier::Thorough => (0..256).collect(),
        // quick: nothing fails, each single module fails, everything fails, everything but one
        Tier::Quick => {
            let mut m = vec![0u32, 255];
            for i in 0..8 {
                m.push(1 << i);
                m.push(255 ^ (1 << i));
            }
            m
        }
    };
    for mask in masks {
        for kind in KINDS {
            for origin in 0..9u8 {
                let modes: Vec<u8> = if origin == 0 { vec![0] } else { vec![0, 1, 2, 3] };
                for mode in modes {
                    for with_earlier in [false, true] {
                        if origin == 0 && with_earlier {
                            continue;
                        }
                        let callee_variants: Vec<bool> = if kind == "wasm" || kind == "wasm-funded" { vec![false, true] } else { vec![false] };
                        for callee_fails in callee_variants {
                            v.push(Case { fail_mask: mask, kind, origin, mode, with_earlier, callee_fails });
                        }
                    }
                }
            }
        }
    }
    v
}

pub fn run_c17(ctx: &Ctx) -> i32 {
    let cs = cases(ctx.tier);
    let evals: u64 = cs
        .par_chunks(64)
        .map(|ch| {
            let mut w = world();
            ch.iter().map(|c| run_case(ctx, &mut w, c)).sum::<u64>()
        })
        .sum();
    let mut qcases = vec![];
    for q in QKINDS {
        for origin in 0..3u8 {
            for mask in [0u32, 127, 1, 2, 4, 16, 64] {
                qcases.push((q, origin, mask));
            }
        }
    }
    let qevals: u64 = qcases
        .par_chunks(16)
        .map(|ch| {
            let mut w = world();
            ch.iter().map(|(q, o, m)| run_query_case(ctx, &mut w, q, *o, *m)).sum::<u64>()
        })
        .sum();
    let stock = stock_modules(ctx);
    let hcs = helper_cases();
    let helper_evals: u64 = {
        let mut w = world();
        hcs.iter().map(|h| run_helper_case(ctx, &mut w, *h)).sum()
    };
    let mut multi_cases = 0usize;
    let multi_evals: u64 = {
        let mut w = world();
        let mut n = 0;
        for kind in KINDS {
            if kind == "wasm-funded" || kind == "wasm-zero-funds" {
                continue;
            }
            for fail in [false, true] {
                n += run_multi_case(ctx, &mut w, kind, fail);
                multi_cases += 1;
            }
        }
        n
    };
    let mut reply_emit_cases = 0usize;
    let reply_emit_evals: u64 = {
        let mut w = world();
        let mut n = 0;
        let kinds_ab = ["bank", "staking", "gov", "custom", "stargate"];
        for a in kinds_ab {
            for b in kinds_ab {
                if module_of(a) == module_of(b) {
                    continue;
                }
                for (a_fails, b_fails) in [(false, false), (true, false), (false, true), (true, true)] {
                    for lifted in [false, true] {
                        if lifted && (a == "custom" || b == "custom") {
                            continue;
                        }
                        n += run_reply_emits_case(ctx, &mut w, a, a_fails, b, b_fails, lifted);
                        reply_emit_cases += 1;
                    }
                }
            }
        }
        n
    };
    let n = cs.len() + qcases.len() + stock as usize + hcs.len() + multi_cases + reply_emit_cases;
    let coverage = json!({
        "states": n,
        "transitions": evals + qevals + stock + helper_evals + multi_evals + reply_emit_evals,
        "reply_handler_emits_a_message_cases": reply_emit_cases,
        "execute_multi_cases": multi_cases,
        "traces_validated_against_impl": n,
        "evaluations": evals + qevals + stock + helper_evals,
        "executor_helper_cases": hcs.len(),
        "executor_helpers": "instantiate_contract, instantiate2_contract, execute_contract, migrate_contract, send_tokens x funds {none, 1x, 3x} x admin {none, some}: the configured module's first record is exactly the message the arguments describe, in the caller's name",
        "stock_module_cases": stock,
        "stock_module_combinations": "all 16 of {AcceptingModule | FailingModule} x {IbcAccepting | IbcFailing} x {GovAccepting | GovFailing} x {StargateAccepting | StargateFailing}; message kinds custom, ibc, gov, stargate, any and query kinds custom, ibc, stargate, grpc from top level, a typed and a lifted contract, every reply_on",
        "distinct_nontrivial": n,
        "rule": "one state = one configuration (which modules fail) x message/query kind x origin x reply_on x position, executed on an App built with recording modules; transitions = clauses checked (exactly one record in the configured module with true sender and unchanged payload, none elsewhere; caller sees the module's Ok/Err; failing module aborts the transaction unless caught; reply per reply_on; surrounding effects kept)",
        "exhaustive": true,
        "message_cases": cs.len(), "query_cases": qcases.len(),
        "switch_combinations": ctx.tier.pick("18 (none, all, each single module, all but one)", "all 256"),
        "kinds": KINDS, "query_kinds": QKINDS,
        "origins": ["top-level", "sub-message of typed contract", "sub-message of lifted Empty-typed contract", "two levels deep (typed)", "two levels deep (lifted)", "from migrate (typed / lifted)", "from sudo (typed / lifted)"],
        "caps_hit": [],
        "samples": [case_json(&cs[cs.len() / 3]), case_json(&cs[cs.len() / 2])],
    });
    ctx.finish(coverage, vec!["distribution queries and SudoMsg::Custom have no configurable module and are outside".into(), "a custom query from a lifted (Empty-typed) contract is not asserted".into()])
}

pub fn replay_c17(ctx: &Ctx, case: &Value) {
    let c = &case["case"];
    let mut w = world();
    if c["reply_emits"].as_bool() == Some(true) {
        let k = |key: &str| -> &'static str { KINDS.iter().find(|k| Some(**k) == c[key].as_str()).copied().unwrap_or("bank") };
        run_reply_emits_case(ctx, &mut w, k("sub_message_kind"), c["its_module_refuses"].as_bool().unwrap_or(false), k("reply_emits_kind"), c["that_module_refuses"].as_bool().unwrap_or(false), c["emitter"] == "lifted");
        return;
    }
    if c["multi"].as_bool() == Some(true) {
        let kind: &'static str = KINDS.iter().find(|k| Some(**k) == c["message_kind"].as_str()).copied().unwrap_or("bank");
        run_multi_case(ctx, &mut w, kind, c["third_message_module_fails"].as_bool().unwrap_or(false));
        return;
    }
    if c["helper"].is_string() {
        run_helper_case(ctx, &mut w, (c["helper_code"].as_u64().unwrap_or(0) as u8, c["funds_code"].as_u64().unwrap_or(0) as u8, c["admin_code"].as_u64().unwrap_or(0) as u8));
        return;
    }
    if let Some(q) = c["query_kind"].as_str() {
        let q: &'static str = QKINDS.iter().find(|k| **k == q).copied().unwrap_or("bank");
        run_query_case(ctx, &mut w, q, c["origin_code"].as_u64().unwrap_or(0) as u8, c["fail_mask"].as_u64().unwrap_or(0) as u32);
        return;
    }
    let kind: &'static str = KINDS.iter().find(|k| Some(**k) == c["message_kind"].as_str()).copied().unwrap_or("bank");
    let cs = Case {
        fail_mask: c["fail_mask"].as_u64().unwrap_or(0) as u32,
        kind,
        origin: c["origin_code"].as_u64().unwrap_or(0) as u8,
        mode: c["mode"].as_u64().unwrap_or(0) as u8,
        with_earlier: c["after_earlier_call_and_write"].as_bool().unwrap_or(false),
        callee_fails: c["wasm_callee_fails"].as_bool().unwrap_or(false),
    };
    run_case(ctx, &mut w, &cs);
}
