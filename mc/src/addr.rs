//! Engine E4 (part 1): C18 – address helpers. Exhaustive input enumeration against an
//! independent BIP-173 / BIP-350 reference codec.

use crate::common::*;
use cosmwasm_std::testing::MockApi;
use cosmwasm_std::{Api, CanonicalAddr};
use cw_multi_test::{IntoAddr, IntoBech32, IntoBech32m, MockApiBech32, MockApiBech32m};
use rayon::prelude::*;
use serde_json::{json, Value};
use sha2::{Digest, Sha256};
use std::collections::BTreeMap;
use std::sync::atomic::{AtomicU64, Ordering::Relaxed};

// ---------------------------------------------------------------------------------------------
// Bech32Ref: independent reference codec (written from BIP-173 / BIP-350)

const CHARSET: &[u8; 32] = b"qpzry9x8gf2tvdw0s3jn54khce6mua7l";

fn polymod(values: &[u8]) -> u32 {
    const GEN: [u32; 5] = [0x3b6a57b2, 0x26508e6d, 0x1ea119fa, 0x3d4233dd, 0x2a1462b3];
    let mut chk: u32 = 1;
    for v in values {
        let b = chk >> 25;
        chk = ((chk & 0x1ff_ffff) << 5) ^ (*v as u32);
        for (i, g) in GEN.iter().enumerate() {
            if (b >> i) & 1 == 1 {
                chk ^= g;
            }
        }
    }
    chk
}

fn hrp_expand(hrp: &str) -> Vec<u8> {
    let mut v: Vec<u8> = hrp.bytes().map(|b| b >> 5).collect();
    v.push(0);
    v.extend(hrp.bytes().map(|b| b & 31));
    v
}

#[derive(Clone, Copy, PartialEq, Eq, Debug)]
pub enum Variant {
    Bech32,
    Bech32m,
}

impl Variant {
    fn konst(&self) -> u32 {
        match self {
            Variant::Bech32 => 1,
            Variant::Bech32m => 0x2bc830a3,
        }
    }
}

/// Encodes 5-bit groups with the checksum of the given variant.
fn encode5(hrp: &str, data5: &[u8], variant: Variant) -> String {
    let mut values = hrp_expand(hrp);
    values.extend_from_slice(data5);
    values.extend_from_slice(&[0u8; 6]);
    let pm = polymod(&values) ^ variant.konst();
    let mut out = String::from(hrp);
    out.push('1');
    for d in data5 {
        out.push(CHARSET[*d as usize] as char);
    }
    for i in 0..6 {
        out.push(CHARSET[((pm >> (5 * (5 - i))) & 31) as usize] as char);
    }
    out
}

/// 8-bit to 5-bit regrouping; `pad_bits` fills the unused low bits of the last group
/// (0 = canonical).
fn to5(bytes: &[u8], pad_bits: u8) -> Vec<u8> {
    let mut acc: u32 = 0;
    let mut bits = 0;
    let mut out = vec![];
    for b in bytes {
        acc = (acc << 8) | *b as u32;
        bits += 8;
        while bits >= 5 {
            bits -= 5;
            out.push(((acc >> bits) & 31) as u8);
        }
    }
    if bits > 0 {
        let free = 5 - bits;
        let mask = (1u32 << free) - 1;
        out.push((((acc << free) & 31) | (pad_bits as u32 & mask)) as u8);
    }
    out
}

fn pad_width(nbytes: usize) -> u32 {
    let rem = (nbytes * 8) % 5;
    if rem == 0 {
        0
    } else {
        (5 - rem) as u32
    }
}

pub fn ref_encode(hrp: &str, bytes: &[u8], variant: Variant) -> String {
    encode5(hrp, &to5(bytes, 0), variant)
}

// ---------------------------------------------------------------------------------------------

enum Codec {
    B32(MockApiBech32),
    B32m(MockApiBech32m),
    Default(MockApi),
}

struct CodecCase {
    name: String,
    prefix: &'static str,
    variant: Variant,
    api: Codec,
}

impl CodecCase {
    fn api(&self) -> &dyn Api {
        match &self.api {
            Codec::B32(a) => a,
            Codec::B32m(a) => a,
            Codec::Default(a) => a,
        }
    }
    fn addr_make(&self, name: &str) -> String {
        match &self.api {
            Codec::B32(a) => a.addr_make(name).into_string(),
            Codec::B32m(a) => a.addr_make(name).into_string(),
            Codec::Default(a) => a.addr_make(name).into_string(),
        }
    }
    fn is_default(&self) -> bool {
        matches!(self.api, Codec::Default(_))
    }
}

const LONG_PREFIX: &str = "abcdefghijklmnopqrstuvwxyz0234567890abcdefghijklmnopqrstuvwxyz0234567890abcdefghijk";

fn prefixes() -> Vec<&'static str> {
    // (a human-readable part may hold any printable ASCII character)
    vec!["a", "juno", "juno1", "cosmwasm", "osmo1x", "my-chain", "x+y~_.", "42-", LONG_PREFIX]
}

fn codecs() -> Vec<CodecCase> {
    let mut v = vec![];
    for p in prefixes() {
        v.push(CodecCase { name: format!("bech32:{}", short(p)), prefix: p, variant: Variant::Bech32, api: Codec::B32(MockApiBech32::new(p)) });
        v.push(CodecCase { name: format!("bech32m:{}", short(p)), prefix: p, variant: Variant::Bech32m, api: Codec::B32m(MockApiBech32m::new(p)) });
        v.push(CodecCase { name: format!("default:{}", short(p)), prefix: p, variant: Variant::Bech32, api: Codec::Default(MockApi::default().with_prefix(p)) });
    }
    v
}

fn short(p: &str) -> String {
    if p.len() > 12 {
        format!("{}..({})", &p[..6], p.len())
    } else {
        p.to_string()
    }
}

struct Acc {
    evals: u64,
    outcomes: Vec<u64>,
}

fn check_validate_identity(ctx: &Ctx, acc: &mut Acc, c: &CodecCase, s: &str, origin: &str) -> bool {
    acc.evals += 1;
    match catch(|| c.api().addr_validate(s)) {
        Ok(Ok(a)) => {
            if a.as_str() != s {
                let codec_kind = c.name.split(':').next().unwrap_or("");
                ctx.violation(
                    &format!("c18:validate-returned-different-string:{}:{}", codec_kind, origin),
                    json!({"codec": c.name, "input": s, "returned": a.as_str(), "origin": origin}),
                );
            }
            true
        }
        Ok(Err(_)) => false,
        Err(p) => {
            ctx.violation("c18:validate-panic", json!({"codec": c.name, "input": s, "panic": p}));
            false
        }
    }
}

fn must_reject(ctx: &Ctx, acc: &mut Acc, c: &CodecCase, s: &str, origin: &str, also_canonicalize: bool) {
    let accepted = check_validate_identity(ctx, acc, c, s, origin);
    if accepted {
        ctx.violation(&format!("c18:accepted-foreign-input:{}", origin), json!({"codec": c.name, "input": s, "origin": origin}));
    }
    if also_canonicalize {
        acc.evals += 1;
        match catch(|| c.api().addr_canonicalize(s)) {
            Ok(Ok(b)) => ctx.violation(
                &format!("c18:canonicalize-accepted-foreign-input:{}", origin),
                json!({"codec": c.name, "input": s, "origin": origin, "bytes": hex(b.as_slice())}),
            ),
            Ok(Err(_)) => {}
            Err(p) => ctx.violation("c18:canonicalize-panic", json!({"codec": c.name, "input": s, "panic": p})),
        }
    }
}

/// Round trip and validation for one canonical byte string under one codec.
fn roundtrip(ctx: &Ctx, acc: &mut Acc, c: &CodecCase, bytes: &[u8]) -> Option<String> {
    acc.evals += 1;
    let want = ref_encode(c.prefix, bytes, c.variant);
    let h = match catch(|| c.api().addr_humanize(&CanonicalAddr::from(bytes))) {
        Ok(Ok(h)) => h.into_string(),
        Ok(Err(e)) => {
            ctx.violation("c18:humanize-failed", json!({"codec": c.name, "bytes": hex(bytes), "error": e.to_string()}));
            return None;
        }
        Err(p) => {
            ctx.violation("c18:humanize-panic", json!({"codec": c.name, "bytes": hex(bytes), "panic": p}));
            return None;
        }
    };
    acc.outcomes.push(hash64(h.as_bytes(), 1));
    if h != want {
        ctx.violation("c18:humanize-differs-from-reference", json!({"codec": c.name, "bytes": hex(bytes), "got": h, "want": want}));
    }
    match catch(|| c.api().addr_canonicalize(&h)) {
        Ok(Ok(b)) => {
            if b.as_slice() != bytes {
                ctx.violation("c18:roundtrip-mismatch", json!({"codec": c.name, "bytes": hex(bytes), "human": h, "back": hex(b.as_slice())}));
            }
        }
        Ok(Err(e)) => ctx.violation("c18:canonicalize-rejects-own-output", json!({"codec": c.name, "bytes": hex(bytes), "human": h, "error": e.to_string()})),
        Err(p) => ctx.violation("c18:canonicalize-panic", json!({"codec": c.name, "input": h, "panic": p})),
    }
    if !check_validate_identity(ctx, acc, c, &h, "own-output") {
        ctx.violation("c18:validate-rejects-own-output", json!({"codec": c.name, "bytes": hex(bytes), "human": h}));
    }
    Some(h)
}

fn corruptions(ctx: &Ctx, acc: &mut Acc, c: &CodecCase, valid: &str) -> u64 {
    let mut n = 0;
    let chars: Vec<char> = valid.chars().collect();
    let mut subs: Vec<char> = CHARSET.iter().map(|b| *b as char).collect();
    subs.extend(['1', 'b', 'i', 'o', 'B', '_', ' ']);
    // characters of two, three and four bytes (the helpers must stay total: reject, not panic)
    subs.extend(['é', '\u{212a}', '\u{1f600}']);
    for pos in 0..chars.len() {
        let mut cand: Vec<char> = subs.clone();
        let orig = chars[pos];
        if orig.is_ascii_lowercase() {
            cand.push(orig.to_ascii_uppercase());
        }
        for s in cand {
            if s == orig {
                continue;
            }
            let mut m = chars.clone();
            m[pos] = s;
            let ms: String = m.into_iter().collect();
            must_reject(ctx, acc, c, &ms, "single-char-corruption", true);
            n += 1;
        }
    }
    // deletions and a duplicated character
    for pos in 0..chars.len() {
        let mut m = chars.clone();
        m.remove(pos);
        let ms: String = m.into_iter().collect();
        if ms != valid {
            must_reject(ctx, acc, c, &ms, "char-deleted", true);
            n += 1;
        }
    }
    // mixed case: upper-case HRP only, upper-case data only
    if let Some(sep) = valid.rfind('1') {
        let (h, d) = valid.split_at(sep);
        let a = format!("{}{}", h.to_ascii_uppercase(), d);
        let b = format!("{}{}", h, d.to_ascii_uppercase());
        for s in [a, b] {
            if s != valid && s != valid.to_ascii_uppercase() {
                must_reject(ctx, acc, c, &s, "mixed-case", true);
                n += 1;
            }
        }
    }
    n
}

pub fn run_c18(ctx: &Ctx) -> i32 {
    let cs = codecs();
    let evals = AtomicU64::new(0);
    let states = AtomicU64::new(0);
    let distinct = Distinct::default();
    let sampler = Sampler::new(8, ctx.seed);
    let mut parts = vec![];

    // ---- (1) canonical byte strings: round trip + validate
    // all strings of length 1 and 2 for every codec
    let mut byte_sets: Vec<Vec<u8>> = vec![vec![]];
    for a in 0..=255u8 {
        byte_sets.push(vec![a]);
    }
    for a in 0..=255u8 {
        for b in 0..=255u8 {
            byte_sets.push(vec![a, b]);
        }
    }
    // all strings over {00, ff} up to length 12
    for len in 3..=12usize {
        for m in 0..(1u32 << len) {
            byte_sets.push((0..len).map(|i| if m & (1 << i) != 0 { 0xff } else { 0 }).collect());
        }
    }
    // patterns for every length 13..=64 (and 3..=12 counting)
    for len in 3..=64usize {
        byte_sets.push(vec![0u8; len]);
        byte_sets.push(vec![0xffu8; len]);
        byte_sets.push(vec![0xa5u8; len]);
        byte_sets.push((0..len).map(|i| if i % 2 == 0 { 0x55 } else { 0xaa }).collect());
        byte_sets.push((0..len).map(|i| i as u8).collect());
        byte_sets.push((0..len).map(|i| (255 - i) as u8).collect());
        byte_sets.push((0..len).map(|i| (i as u8).wrapping_mul(37).wrapping_add(11)).collect());
    }
    let n_sets = byte_sets.len();
    for c in &cs {
        let r: (u64, Vec<u64>) = byte_sets
            .par_chunks(512)
            .map(|chunk| {
                let mut acc = Acc { evals: 0, outcomes: vec![] };
                for b in chunk {
                    // (the zero-length byte string: the Bech32 / Bech32m codecs encode it - prefix,
                    // separator, checksum; cosmwasm-std's default codec refuses it by design)
                    if b.is_empty() && matches!(c.api, Codec::Default(_)) {
                        continue;
                    }
                    roundtrip(ctx, &mut acc, c, b);
                }
                acc.outcomes.sort_unstable();
                acc.outcomes.dedup();
                (acc.evals, acc.outcomes)
            })
            .reduce(|| (0, vec![]), |mut a, b| {
                a.0 += b.0;
                a.1.extend(b.1);
                a
            });
        evals.fetch_add(r.0, Relaxed);
        distinct.extend(r.1);
        states.fetch_add(n_sets as u64, Relaxed);
    }
    parts.push(json!({"part": "roundtrip", "byte_strings_per_codec": n_sets, "codecs": cs.len()}));
    // byte strings near and beyond what an encoding of at most 1023 symbols can hold: turning them
    // into text may be refused, but text that IS handed out decodes, validates and gives the bytes back
    {
        let mut acc = Acc { evals: 0, outcomes: vec![] };
        for c in &cs {
            if matches!(c.api, Codec::Default(_)) {
                continue;
            }
            for len in [500usize, 560, 584, 600, 632, 633, 640, 700, 1000, 1023, 1024, 1100] {
                let bytes: Vec<u8> = (0..len).map(|i| (i as u8).wrapping_mul(31).wrapping_add(7)).collect();
                acc.evals += 1;
                match catch(|| c.api().addr_humanize(&CanonicalAddr::from(bytes.clone()))) {
                    Err(p) => ctx.violation("c18:humanize-panic", json!({"codec": c.name, "bytes_len": len, "panic": p})),
                    Ok(Err(_)) => {}
                    Ok(Ok(h)) => {
                        let back = catch(|| c.api().addr_canonicalize(h.as_str()));
                        let val = catch(|| c.api().addr_validate(h.as_str()));
                        let ok = matches!(&back, Ok(Ok(b)) if b.as_slice() == bytes.as_slice()) && matches!(&val, Ok(Ok(a)) if a.as_str() == h.as_str());
                        if !ok {
                            ctx.violation("c18:canonicalize-rejects-own-output:long-address", json!({"codec": c.name, "bytes_len": len, "text_len": h.as_str().len(), "canonicalize": format!("{:?}", back.map(|r| r.map(|b| b.len()).map_err(|e| e.to_string()))), "validate": format!("{:?}", val.map(|r| r.map(|a| a.as_str().len()).map_err(|e| e.to_string())))}));
                        }
                    }
                }
            }
        }
        evals.fetch_add(acc.evals, Relaxed);
    }

    if ctx.tier == Tier::Thorough {
        // all 16.7 M strings of length 3 for the two bech codecs with prefix juno
        for c in cs.iter().filter(|c| c.prefix == "juno" && !c.is_default()) {
            let r: u64 = (0..(1u32 << 24))
                .into_par_iter()
                .chunks(4096)
                .map(|chunk| {
                    let mut acc = Acc { evals: 0, outcomes: vec![] };
                    for x in chunk {
                        let b = [(x >> 16) as u8, (x >> 8) as u8, x as u8];
                        roundtrip(ctx, &mut acc, c, &b);
                    }
                    acc.evals
                })
                .sum();
            evals.fetch_add(r, Relaxed);
            states.fetch_add(1 << 24, Relaxed);
        }
        parts.push(json!({"part": "roundtrip-all-3-byte-strings", "codecs": ["bech32:juno", "bech32m:juno"], "byte_strings_per_codec": 1u32 << 24}));
    }

    // ---- (2) names: addr_make deterministic, valid, injective over names x prefixes; helper traits agree
    let alphabet = ['a', 'b', '0', ' ', 'é'];
    let mut names: Vec<String> = vec![String::new()];
    let mut frontier = vec![String::new()];
    for _ in 0..3 {
        let mut next = vec![];
        for f in &frontier {
            for ch in alphabet {
                let mut s = f.clone();
                s.push(ch);
                next.push(s);
            }
        }
        names.extend(next.iter().cloned());
        frontier = next;
    }
    // names that are themselves well-formed addresses of the codecs under test (a name is a name:
    // it is hashed like any other)
    for c in &cs {
        for bytes in [Sha256::digest(b"a").to_vec(), vec![7u8; 5]] {
            let n = ref_encode(c.prefix, &bytes, c.variant);
            if !names.contains(&n) {
                names.push(n);
            }
        }
    }
    {
        let mut acc = Acc { evals: 0, outcomes: vec![] };
        let mut made: BTreeMap<String, (String, String)> = BTreeMap::new();
        for c in &cs {
            for name in &names {
                acc.evals += 1;
                let r = catch(|| (c.addr_make(name), c.addr_make(name)));
                let (a1, a2) = match r {
                    Ok(x) => x,
                    Err(p) => {
                        ctx.violation("c18:addr-make-panic", json!({"codec": c.name, "name": name, "panic": p}));
                        continue;
                    }
                };
                if a1 != a2 {
                    ctx.violation("c18:addr-make-nondeterministic", json!({"codec": c.name, "name": name, "a1": a1, "a2": a2}));
                }
                let want = ref_encode(c.prefix, Sha256::digest(name.as_bytes()).as_slice(), c.variant);
                if a1 != want {
                    ctx.violation("c18:addr-make-differs-from-reference", json!({"codec": c.name, "name": name, "got": a1, "want": want}));
                }
                if !check_validate_identity(ctx, &mut acc, c, &a1, "addr-make") {
                    ctx.violation("c18:addr-make-invalid-under-own-codec", json!({"codec": c.name, "name": name, "addr": a1}));
                }
                // injective over names x prefixes within one checksum variant family
                let fam = format!("{:?}", c.variant);
                let key = format!("{}|{}", fam, a1);
                if let Some((n0, p0)) = made.get(&key) {
                    if n0 != name || p0 != c.prefix {
                        ctx.violation("c18:addr-make-collision", json!({"addr": a1, "name1": n0, "prefix1": p0, "name2": name, "prefix2": c.prefix}));
                    }
                } else {
                    made.insert(key, (name.clone(), c.prefix.to_string()));
                }
                acc.outcomes.push(hash64(a1.as_bytes(), 2));
            }
        }
        // helper traits
        for name in &names {
            for p in prefixes() {
                acc.evals += 3;
                let r = catch(|| {
                    (
                        name.as_str().into_addr_with_prefix(p).into_string(),
                        name.as_str().into_bech32_with_prefix(p).into_string(),
                        name.as_str().into_bech32m_with_prefix(p).into_string(),
                    )
                });
                match r {
                    Ok((a, b, m)) => {
                        let wa = MockApi::default().with_prefix(p).addr_make(name).into_string();
                        let wb = MockApiBech32::new(p).addr_make(name).into_string();
                        let wm = MockApiBech32m::new(p).addr_make(name).into_string();
                        if a != wa || b != wb || m != wm {
                            ctx.violation("c18:into-addr-helper-disagrees-with-api", json!({"name": name, "prefix": p, "got": [a, b, m], "want": [wa, wb, wm]}));
                        }
                    }
                    Err(pn) => ctx.violation("c18:into-addr-helper-panic", json!({"name": name, "prefix": p, "panic": pn})),
                }
            }
            acc.evals += 3;
            let d = (
                name.as_str().into_addr().into_string(),
                name.as_str().into_bech32().into_string(),
                name.as_str().into_bech32m().into_string(),
            );
            let w = (
                MockApi::default().addr_make(name).into_string(),
                MockApiBech32::new("cosmwasm").addr_make(name).into_string(),
                MockApiBech32m::new("cosmwasm").addr_make(name).into_string(),
            );
            if d != w {
                ctx.violation("c18:into-addr-default-helper-disagrees-with-api", json!({"name": name}));
            }
        }
        evals.fetch_add(acc.evals, Relaxed);
        distinct.extend(acc.outcomes);
        states.fetch_add((names.len() * cs.len()) as u64, Relaxed);
        parts.push(json!({"part": "names", "names": names.len(), "codecs": cs.len()}));
    }

    // ---- (3) corruptions, foreign prefixes / variants, non-canonical spellings of valid addresses
    let valid_bytes: Vec<Vec<u8>> = vec![
        vec![0x00],
        vec![0xff],
        vec![0x01, 0x02],
        vec![0xde, 0xad, 0xbe],
        vec![0, 0, 0, 0],
        (0..5).collect(),
        (0..20).collect(),
        Sha256::digest(b"creator").to_vec(),
        vec![0xff; 32],
        (0..54).map(|i| (i * 7) as u8).collect(),
    ];
    let ncorr = AtomicU64::new(0);
    cs.par_iter().for_each(|c| {
        let mut acc = Acc { evals: 0, outcomes: vec![] };
        let mut n = 0u64;
        for vb in &valid_bytes {
            if c.prefix == LONG_PREFIX && vb.len() > 20 && ctx.tier == Tier::Quick {
                continue;
            }
            let valid = ref_encode(c.prefix, vb, c.variant);
            // the codec accepts its own printing (already checked in (1) for enumerated bytes)
            if !check_validate_identity(ctx, &mut acc, c, &valid, "own-output") {
                ctx.violation("c18:validate-rejects-own-output", json!({"codec": c.name, "bytes": hex(vb), "human": valid}));
            }
            n += corruptions(ctx, &mut acc, c, &valid);
            // other checksum variant
            let other = match c.variant {
                Variant::Bech32 => Variant::Bech32m,
                Variant::Bech32m => Variant::Bech32,
            };
            must_reject(ctx, &mut acc, c, &ref_encode(c.prefix, vb, other), "other-variant", true);
            n += 1;
            // every other prefix (valid checksum for that prefix)
            let mut others: Vec<String> = prefixes().iter().map(|p| p.to_string()).collect();
            others.push(format!("{}x", c.prefix));
            others.push(c.prefix[..c.prefix.len() - 1].to_string());
            others.push("b".into());
            for p in others {
                if p == c.prefix || p.is_empty() || p.len() > 83 {
                    continue;
                }
                must_reject(ctx, &mut acc, c, &ref_encode(&p, vb, c.variant), "other-prefix", true);
                n += 1;
            }
            // non-canonical spellings with a valid checksum: must be rejected or returned as given
            let pw = pad_width(vb.len());
            for pad in 1..(1u8 << pw) {
                let s = encode5(c.prefix, &to5(vb, pad), c.variant);
                check_validate_identity(ctx, &mut acc, c, &s, "nonzero-padding-bits");
                n += 1;
            }
            for extra in 1..=2usize {
                let mut d = to5(vb, 0);
                d.extend(std::iter::repeat(0u8).take(extra));
                let s = encode5(c.prefix, &d, c.variant);
                check_validate_identity(ctx, &mut acc, c, &s, "extra-zero-groups");
                n += 1;
            }
            // all-upper-case form: whether it is accepted is not asserted (see DESIGN section 3), but an
            // accepted string is "returned unchanged" like any other
            check_validate_identity(ctx, &mut acc, c, &valid.to_ascii_uppercase(), "all-upper-case");
            n += 1;
            // assorted malformed strings
            for s in ["", "1", c.prefix, &format!("{}1", c.prefix), &format!("{}1qqqqqq", c.prefix), "no-separator", "é1qqqqqq", " "] {
                check_validate_identity(ctx, &mut acc, c, s, "malformed");
                n += 1;
            }
        }
        evals.fetch_add(acc.evals, Relaxed);
        ncorr.fetch_add(n, Relaxed);
        sampler.offer(hash64(c.name.as_bytes(), 5) % 50, || json!({"codec": c.name, "valid_address": ref_encode(c.prefix, &valid_bytes[3], c.variant),
            "non_canonical_spelling": encode5(c.prefix, &to5(&valid_bytes[3], 1), c.variant)}));
    });
    states.fetch_add(ncorr.load(Relaxed), Relaxed);
    parts.push(json!({"part": "corruptions+foreign+non-canonical", "strings": ncorr.load(Relaxed), "valid_addresses_per_codec": valid_bytes.len()}));

    let mut samples = sampler.take();
    samples.push(json!({"bytes": "dead", "codec": "bech32:juno", "human": ref_encode("juno", &[0xde, 0xad], Variant::Bech32)}));
    let n_states = states.load(Relaxed);
    let coverage = json!({
        "states": n_states,
        "transitions": evals.load(Relaxed),
        "traces_validated_against_impl": n_states,
        "evaluations": evals.load(Relaxed),
        "distinct_nontrivial": distinct.len(),
        "rule": "states = (codec, input) pairs enumerated: byte strings, names, corrupted / foreign / non-canonical strings; transitions = Api calls compared with the independent reference codec; distinct_nontrivial = distinct addresses produced",
        "exhaustive": true,
        "parts": parts,
        "codecs": cs.iter().map(|c| c.name.clone()).collect::<Vec<_>>(),
        "caps_hit": [],
        "samples": samples,
    });
    ctx.finish(
        coverage,
        vec![
            "Bech32Ref (independent BIP-173/350 encoder in mc/src/addr.rs) is trusted as the meaning of 'decodes under that codec'".into(),
            "all-upper-case input is not asserted either way".into(),
            "byte strings longer than 3 are covered by patterns, not exhaustively".into(),
        ],
    )
}

pub fn replay_c18(ctx: &Ctx, case: &Value) {
    let cs = codecs();
    let name = case["codec"].as_str().unwrap_or("");
    let Some(c) = cs.iter().find(|c| c.name == name) else {
        machinery_error(&format!("unknown codec {}", name));
    };
    let mut acc = Acc { evals: 0, outcomes: vec![] };
    if let Some(s) = case["input"].as_str() {
        let origin = case["origin"].as_str().unwrap_or("replay");
        if matches!(origin, "single-char-corruption" | "char-deleted" | "mixed-case" | "other-variant" | "other-prefix") {
            must_reject(ctx, &mut acc, c, s, origin, true);
        } else {
            check_validate_identity(ctx, &mut acc, c, s, origin);
        }
    } else if let Some(b) = case["bytes"].as_str() {
        roundtrip(ctx, &mut acc, c, &unhex(b));
    }
}
