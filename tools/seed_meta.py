#!/usr/bin/env python3
"""Builds seeded/<id>/meta.json and seeded/README.md from selftest logs (tools/selftest.sh output)."""
import json, os, re, sys, glob
ROOT = os.path.dirname(os.path.dirname(os.path.abspath(__file__)))
TRIGGERS = {
 "S-C01": ("C01", "App::wasm_sudo no longer wraps the call in the top-level cache: needs the wasm_sudo entry point (not sudo(Wasm)), a sudo handler that wrote state or emitted >= 2 messages, and a later message that fails uncaught"),
 "S-C02": ("C02", "execute_submsg rewritten with and_then/or_else: under reply_on Always a SUCCESSFUL sub-message whose success-reply fails is replied a second time with Err; if that second reply succeeds the failure is absorbed although the child's writes are committed (needs a reply handler that fails on Ok and succeeds on Err)"),
 "S-C03": ("C03", "same refactoring slip as S-C02 seen from the reply side: reply invoked twice (Ok then Err) for a successful Always sub-message whose reply handler errors"),
 "S-C04": ("C04", "process_response treats present-but-empty reply data as not set (`filter(!is_empty)`): needs a reply handler that sets empty data (and earlier data or a raw execute to see None vs Some(empty))"),
 "S-C05": ("C05", "messages emitted by a migrate handler are dispatched in the ADMIN's name: needs entry point migrate, a handler that returns messages, admin != contract"),
 "S-C06": ("C06", "StorageTransaction::remove drops the local Set entry instead of leaving a tombstone: needs a key present in the base, set then removed in one cache, read before commit"),
 "S-C07": ("C07", "range_with_prefix counts every 0xFF byte of the prefix instead of the trailing run: needs a namespace with a 0xFF byte outside the trailing run (inner/leading 0xFF, nested path, length 255) and a range with end = None"),
 "S-C08": ("C08", "range over a prefixed store skips the raw key that equals the prefix: needs a value stored under the EMPTY key of a contract; point reads see it, dump / accessor range / the contract's own iteration do not"),
 "S-C09": ("C09", "BankKeeper::send reads both balances before writing either: a covered SELF-transfer adds the amount to the account and to the supply"),
 "S-C10": ("C10", "same write-cache slip as S-C06 observed through queries: a key that existed before the transaction, overwritten and then removed inside it, is still seen by later queries of the same transaction"),
 "S-C11": ("C11", "save_code takes source_id from code_data.len(): needs a store_code AFTER a duplicate_code and then use of the later code (panics or silently runs another code)"),
 "S-C12": ("C12", "Migrate admin check falls back to the CREATOR when the contract has no admin: needs a contract without admin (or after ClearAdmin) and a migrate sent by its creator"),
 "S-C13": ("C13", "event-type minimum length counted in characters instead of bytes: a type that trims to exactly one multi-byte character (e.g. 'é') is rejected"),
 "S-C14": ("C14", "a second undelegation of the same delegator/validator is merged into the previous queue entry and keeps its earlier payout time: needs two undelegations at different times, nothing in between, and a block update between the two maturities"),
 "S-C15": ("C15", "slash() loads ValidatorInfo before update_rewards and writes the stale copy back: the interval before a slash (< 100%, at a later block time than the last calculation) is credited twice"),
 "S-C16": ("C16", "slash() returns early when the validator's active stake is zero: pending unbondings of a fully-undelegated validator are not slashed"),
 "S-C17": ("C17", "WasmMsg sub-messages are executed by the running keeper directly instead of through the router: needs a user Wasm implementation (wrapping the keeper) configured with with_wasm; it never sees nested wasm messages"),
 "S-C18": ("C18", "addr_canonicalize compares the prefix with input.starts_with(prefix): a well-formed address whose prefix EXTENDS the configured one (cosmos vs cosmosvaloper) is accepted by canonicalize (validate still rejects)"),
 "S-C19": ("C19", "thread-local cache of (last registered address, instance count) in the wasm keeper: needs two Apps interleaved on one thread (A.inst, A.inst, B.inst, A.inst)"),
 "T-C01": ("C01", "execute_submsg runs only Wasm sub-messages in a nested cache; a bank/staking/custom-module sub-message that fails AFTER a partial write (e.g. Delegate above the balance) and is caught by reply_on Error/Always leaves the partial write, and the top-level Ok commits it"),
 "T-C02": ("C02", "the per-sub-message cache is created only for reply_on Always|Success: a sub-message sent with reply_on Error that fails after a partial effect (attached funds, a failed instantiate's registration, a depth-2 subtree) and is absorbed by the reply leaves that effect"),
 "T-C03": ("C03", "ContractWrapper::with_sudo_empty rebuilds the wrapper with reply_fn: None: a wrapper built with with_reply(..) BEFORE with_sudo_empty(..) never gets its reply invoked"),
 "T-C04": ("C04", "execute_submsg clears a non-replied sub-message's data only for reply_on Never: with reply_on Error and a SUCCESSFUL sub-message carrying data, that data leaks up and replaces the caller's"),
 "T-C05": ("C05", "WasmKeeper::send skips the bank transfer when sender == recipient: a contract calling ITSELF with funds it does not own runs instead of failing"),
 "T-C06": ("C06", "StorageTransaction::set drops a write whose value equals the BASE value (compared with the backing store instead of the cache view): base k=v, change k in the cache, write v back -> lost"),
 "T-C07": ("C07", "range_with_prefix treats an explicit EMPTY end bound Some(b\"\") like None: the range returns the rest of the view instead of nothing"),
 "T-C08": ("C08", "contract_namespace is built from the LOWER-CASED address: two contracts whose addresses differ only in letter case (custom AddressGenerator) share one key space"),
 "T-C09": ("C09", "BankKeeper::burn checks each coin against the balance as loaded and then subtracts saturating: a list naming one denomination twice, each coin affordable alone but not together, succeeds (balance 7, send [5,5])"),
 "T-C10": ("C10", "instantiate: the attached funds are transferred AFTER the instantiate entry point ran: queries issued inside instantiate do not see the funds just sent"),
 "T-C11": ("C11", "instantiate trims the label before recording it: a label with leading/trailing whitespace is recorded differently from what was supplied (and a whitespace-only label is rejected)"),
 "T-C12": ("C12", "the response of a migrate entry point is processed with the requesting ADMIN as sender: UpdateAdmin / ClearAdmin / Migrate emitted from migrate pass the admin check although the emitting contract is not the admin"),
 "T-C13": ("C13", "verify_attributes skips the reserved-key check when the (trimmed) value is empty: an attribute with a key starting with '_' AND an empty/blank value is accepted"),
 "T-C14": ("C14", "slash() scales pending unbondings only for delegators still in the validator's staker set: the unbonding of someone who has fully left the validator is not slashed and paid in full"),
 "T-C15": ("C15", "calculate_rewards takes floor(now - last) instead of floor(now) - floor(last): the sub-second remainder is dropped at every reward update (needs block times with differing sub-second parts and stakes large enough that a second of reward is worth tokens). NOTE: written against the tree before the C15 repair; the patch no longer applies, the equivalent change is mutants/m15-subsecond-remainder-dropped.diff"),
 "T-C16": ("C16", "slash() loads ValidatorInfo before update_rewards and saves the stale copy: the period since the last reward update is counted a second time on the slashed stake (accrued rewards change at the slash)"),
 "T-C17": ("C17", "the response of a migrate entry point is processed with the admin as sender: every message emitted from migrate reaches its module in the admin's name"),
 "T-C18": ("C18", "addr_validate pre-checks the prefix with split_once('1') (first '1', not the last): every address of a codec whose prefix contains the character '1' is rejected"),
 "T-C19": ("C19", "ValidatorInfo.stakers becomes a HashSet: its serialisation order in storage depends on a per-set random seed, so two identical runs store different bytes (needs >= 2 delegators on one validator and a comparison of raw storage)"),
 "T-C20": ("C20", "ContractWrapper::with_reply_empty rebuilds the wrapper with checksum: None: a checksum set before with_reply_empty is lost"),
 "S-C20": ("C20", "AppBuilder::with_ibc rebuilds the builder with the default block: needs with_block(..) followed later by with_ibc(..)"),
 "U-C01": ("C01", "StorageTransaction::set drops a write whose value equals what the BACKING storage holds (not the cache's own view): key k=v before the transaction, changed inside it (or in an outer layer) and written back to v in a nested layer -> the write-back is lost, so a transaction that returned Ok did not persist all its effects"),
 "U-C02": ("C02", "customize_msg (lifting of responses of contracts written against Empty: new_with_empty / with_*_empty) rebuilds sub-messages with the SubMsg constructors and maps reply_on Success to Always: a failing sub-message sent with reply_on Success by a lifted contract is absorbed by its reply instead of propagating"),
 "U-C03": ("C03", "execute_submsg builds the Reply of a FAILED sub-message with an empty payload: needs reply_on Error/Always, a failing sub-message and a non-empty payload"),
 "U-C04": ("C04", "build_app_response drops custom events that carry no attributes: a contract event without attributes must still surface as wasm-<type> with the contract address"),
 "U-C05": ("C05", "execute_submsg runs a sub-message in its own cache only for reply_on Always|Success: with reply_on Error a failing Execute/Instantiate whose failure is absorbed by the reply keeps the attached funds on the callee (same site as T-C02, seen from the funds side)"),
 "U-C06": ("C06", "range_bounds treats an EMPTY end bound like a missing one on the cache's own pending entries: range(_, Some(b\"\")) returns the pending sets instead of nothing"),
 "U-C07": ("C07", "range_with_prefix skips raw records not LONGER than the prefix (off by one): the entry under the empty key of a view (raw key == encoded prefix) is never returned by range, while get/set/remove still address it"),
 "U-C08": ("C08", "MergeOverlay: a locally overwritten (Set) key no longer hides the base entry: iteration inside a transaction yields the key twice (new value then old value)"),
 "U-C09": ("C09", "BankKeeper::mint fast path for accounts without balance stores the coins un-normalised: a first credit naming a denomination twice (or with zero amounts) leaves unmerged / zero entries, so all-balances and single-denomination queries disagree"),
 "U-C10": ("C10", "execute_submsg creates the cache layer only when the result is handled in reply (see NOTES.md): writes of a failed sub-message that is absorbed stay visible to later queries of the same transaction"),
 "U-C11": ("C11", "register_contract treats an EMPTY salt as no salt: instantiate2 with salt b\"\" succeeds at a history-dependent address and can be repeated"),
 "U-C12": ("C12", "update_admin returns Ok early when the requested admin equals the stored one, before the sender check: UpdateAdmin naming the CURRENT admin succeeds for any sender (former admin, stranger, contract)"),
 "U-C13": ("C13", "App::wasm_sudo no longer wraps the call in the outer cache: a sudo response that is rejected as malformed keeps the writes made before it (a sudo returning Err is still rolled back)"),
 "U-C14": ("C14", "process_queue: the zero-amount test moved into the match guard, so a matured entry slashed to zero is never popped and blocks every later payout: needs an unbonding slashed to 0 (100 % slash, or 1 token at 50 %) and a later undelegation"),
 "U-C15": ("C15", "WithdrawDelegatorReward reads the staking parameters from the root storage and falls back to the defaults: with a bonded denomination other than TOKEN the reward is minted in TOKEN"),
 "U-C16": ("C16", "slash takes the wipe-out branch when floor(total * (1-p)) is zero instead of when p = 1: a partial slash leaving less than one token deletes the stake entries and the rewards accrued on them"),
 "U-C17": ("C17", "customize_msg rewrites a lifted contract's CosmosMsg::Stargate into CosmosMsg::Any: the stargate module's execute_any is called instead of execute_stargate (needs features stargate + cosmwasm_2_0 and a handler that tells the two apart)"),
 "U-C18": ("C18", "MockApiBech::addr_canonicalize lower-cases its input before decoding: mixed-case spellings (and k -> U+212A) are accepted by canonicalize"),
 "U-C19": ("C19", "StakeKeeper::get_staking_info caches the parameters in a process-wide static: the first App of the process to read them fixes bonded denomination, unbonding time and rate for every later App (needs two Apps with different staking parameters in one process)"),
 "V-C01": ("C01", "StorageTransaction::remove drops the cache's pending Set (and its log entries) instead of recording a Delete when the key was written in the same cache: a key that existed BEFORE the transaction, written and later removed inside it, survives an Ok transaction with its old value"),
 "V-C02": ("C02", "StorageTransaction::remove drops the cache's own entry (log untouched) when the key was written earlier in the same cache: reads later in the same transaction fall through to the old value below; the committed state is right"),
 "V-C03": ("C03", "execute_submsg fills the deprecated Reply data only when the value is non-empty: a successful sub-message whose data is present but EMPTY reaches the reply as None"),
 "V-C04": ("C04", "WasmMsg::Migrate: the execute-response encoding is applied to the contract's own data BEFORE process_response: data set by a reply below migrate is returned raw"),
 "V-C05": ("C05", "process_wasm_msg_instantiate moves the attached funds AFTER the instantiate entry point ran: the handler sees funds it does not own yet, and runs although the sender cannot pay (same idea as T-C10, other code shape)"),
 "V-C06": ("C06", "MergeOverlay skips 'dangling' tombstones with an ascending-only comparison: in a DESCENDING range a tombstone the base iterator has not reached yet is thrown away and the removed key comes back (base {a,b,c}, remove c then a)"),
 "V-C07": ("C07", "range_with_prefix decides 'no upper bound' by namespace.is_empty(): for a raw prefix made only of 0xFF bytes (every segment 65535 x 0xFF) any range with end = None returns nothing"),
 "V-C08": ("C08", "register_contract checks for an existing contract only on the salted path: with a custom AddressGenerator whose unsalted address is occupied, a second contract is created on the first one's key space"),
 "V-C09": ("C09", "BankQuery::Balance looks the denomination up by position without comparing it: asking for a denomination the account does not hold returns the next greater coin it holds"),
 "V-C10": ("C10", "App::wasm_sudo without its outer cache (written against C10; what it breaks is top-level atomicity: the effects of a failed wasm_sudo tree are committed, and queries then faithfully show that committed state)"),
 "V-C11": ("C11", "same site as V-C08: the duplicate-address check only guards instantiate2; a custom AddressGenerator returning a taken address lets an unsalted instantiate overwrite the live contract's record"),
 "V-C12": ("C12", "WasmMsg::Migrate saves the ContractData copy loaded before migrate ran also on success: admin changes / further migrations of the same contract made by messages emitted from its migrate entry point are undone"),
 "V-C13": ("C13", "verify_response stops checking events at the first event WITHOUT attributes (break instead of continue): a malformed event after an attribute-less one is accepted"),
 "V-C14": ("C14", "Undelegate computes payout_at from the block time truncated to whole seconds: with sub-second block times an unbonding is paid up to just under a second before the period ends"),
 "V-C15": ("C15", "get_rewards_internal floors credited and uncredited rewards separately: when the fractional parts sum to one or more the pending reward shown is one token below what the withdrawal pays"),
 "V-C16": ("C16", "update_rewards' early-return guard compares whole seconds: a slash in the same second as (but nanoseconds after) the last reward calculation scales the stake before the open interval is settled, so accrued rewards shrink by (1-p) (needs sub-second steps and stakes around 10^12)"),
 "V-C17": ("C17", "WasmKeeper::send skips the bank transfer when all attached coins are zero-amount: the configured bank module never sees (and cannot reject) the implied BankMsg::Send of execute/instantiate with funds [0 x]"),
 "V-C18": ("C18", "MockApiBech::addr_humanize gained a length guard with < instead of <=: canonical addresses of exactly 64 bytes are refused (and so is validation of their encoding)"),
 "V-C19": ("C19", "RouterQuerier::raw_query formats the parse error of a malformed query request with {:?}: the error text handed back (also to contracts) contains the captured backtrace, i.e. depends on RUST_BACKTRACE and the call stack"),
 "W-C01": ("C01", "App::execute_multi commits after each message instead of once for the call: a later message failing uncaught leaves the earlier messages' effects although the call returns Err"),
 "W-C02": ("C02", "StorageTransaction::prepare drops every logged Set whose value equals what the backing store holds, op by op: a key changed by one completed step and restored by a later one to the old bytes commits the intermediate value"),
 "W-C03": ("C03", "WasmKeeper::reply sorts the attributes of every event inside an Ok reply by key: the Reply no longer carries exactly the events the sub-message produced (needs attribute keys not already in byte order)"),
 "W-C04": ("C04", "customize_response (lifting of Empty-typed entry points) sets data with unwrap_or_default: an entry point that set NO data comes through as present-but-empty, so a *_empty reply handler without data wipes earlier data and execute results are wrapped although nothing is present"),
 "W-C05": ("C05", "WasmKeeper::send passes the attached coins through a map keyed by denomination: with one denomination named twice only the last amount is moved while the contract is told the full list"),
 "W-C06": ("C06", "RepLog::commit sorts the log by key with an UNSTABLE sort before replaying it: with more than ~32 pending operations the order of operations on one key is lost (stale overwrite / removed key back)"),
 "W-C07": ("C07", "set_with_prefix skips 'no-op' writes but reads the base at the UNPREFIXED key: a foreign raw entry equal to the view key and holding the value being written makes the write vanish"),
 "W-C08": ("C08", "the write-cache iterates its own pending entries end-INCLUSIVE: a contract iterating without end bound sees the pending empty-key entry of the contract whose address is its byte-order successor (needs neighbouring addresses, same transaction)"),
 "W-C09": ("C09", "BankKeeper::get_supply stops summing (map_while) at the first account that does not hold the denomination: supply under-reported whenever such an account sorts before a holder"),
 "W-C10": ("C10", "get_rewards_internal floors credited and uncredited rewards separately (same as V-C15, written against C10): the Delegation query can show one token less than the same state pays; reported by the rewards property"),
 "W-C11": ("C11", "WasmMsg::Migrate validates the target code id against the NUMBER of codes again (half of the repaired C11 defect): migration to a code stored under a non-contiguous id is refused"),
 "W-C12": ("C12", "update_admin compares canonicalised addresses with .ok(): when neither the stored admin nor the sender can be canonicalised (admin recorded unvalidated at instantiation, e.g. 'owner'; sender 'random') None == None passes"),
 "W-C13": ("C13", "build_app_response trims the custom event type when emitting it: an accepted type with surrounding whitespace does not surface unchanged"),
 "W-C14": ("C14", "the denomination check moved from add_stake/remove_stake into the Delegate handler only: Redelegate with a foreign denomination moves real stake"),
 "W-C15": ("C15", "slash rebuilds each staker's Shares with ..Default::default(): rewards credited up to the slash are dropped (partial slashes only)"),
 "W-C16": ("C16", "slash skips unbonding entries that are already mature (payout_at <= now): with an unbonding period of zero an unbonding queued in the same block is paid unslashed"),
 "W-C17": ("C17", "execute_submsg hands a FAILED sub-message to reply for every mode but Never: under reply_on Success a failing module no longer aborts the transaction"),
 "W-C18": ("C18", "addr_canonicalize builds its error text with a byte-offset slice of the input: a multi-byte character straddling byte offset prefix.len() makes the helper panic instead of returning Err"),
 "W-C19": ("C19", "Reply.gas_used carries the wall-clock nanoseconds the sub-message took"),
 "X-C01": ("C01", "RepLog::append compacts repeated Sets of one key in place but lets a Delete keep its later position: set, remove, set again of one key inside one cache layer commits the removal last"),
 "X-C02": ("C02", "execute_submsg treats a sub-message with id 0 as reply_on Never: a failing sub-message with id 0 sent with Error/Always is not absorbed"),
 "X-C03": ("C03", "execute_submsg's failure branch became a match with Never => Err, _ => reply: a FAILED sub-message sent with reply_on Success is replied to (with Err) instead of propagating"),
 "X-C04": ("C04", "build_app_response does not prefix a custom event whose type already starts with 'wasm-'"),
 "X-C05": ("C05", "BankKeeper::send loads both balances before storing either: a contract calling ITSELF with funds it owns is credited without being debited"),
 "X-C06": ("C06", "StorageTransaction::set updates a pending entry in place and forgets the pending-Delete case: remove then set of one key in one cache leaves the tombstone in the read view (commit is right)"),
 "X-C07": ("C07", "namespace concat() returns the key unprefixed when it already starts with the view's own encoded prefix: view keys k and P++k alias one raw entry"),
 "X-C08": ("C08", "StorageTransaction::remove drops a pending Set instead of recording a tombstone (the Delete is still logged): between an overwrite+remove on one cache level and the end of the transaction, reads show the value from the layer below"),
 "X-C09": ("C09", "normalize_amount cuts the coin list at the first zero-amount coin (take_while) instead of dropping zero coins: coins after a zero coin are silently not moved / burned / minted"),
 "X-C10": ("C10", "execute_submsg commits a successful sub-message's cache AFTER its reply ran: queries issued inside the reply do not see what the sub-message did"),
 "X-C11": ("C11", "WasmMsg::Migrate records the new code id AFTER calling migrate: the migrate entry point that runs is the OLD code's (fails if the old code has none, accepts what the new one would refuse)"),
 "X-C12": ("C12", "the admin checks compare admin.unwrap_or_default() with the sender: 'no admin' equals the sender with the EMPTY address, who may then migrate / set the admin"),
 "X-C13": ("C13", "call_migrate no longer passes its result through verify_response: malformed responses of the migrate entry point are accepted"),
 "X-C14": ("C14", "update_stake checks an undelegation against the validator's TOTAL stake instead of the sender's shares: with several delegators, taking out more than one's own delegation panics (subtract with overflow)"),
 "X-C15": ("C15", "a PARTIAL redelegation no longer settles the source validator's rewards first: the open interval is later computed on the reduced stake"),
 "X-C16": ("C16", "slash's scan of the unbonding queue stops (break) at the first entry of another validator: unbondings queued behind it are paid unslashed"),
 "X-C17": ("C17", "App::wasm_sudo without its outer cache (third time, written against C17): a module failing late in a tree started by wasm_sudo does not abort what came before"),
 "X-C18": ("C18", "addr_make returns its input unchanged when that is already a valid address of the codec: the names n and addr_make(n) give the same address"),
 "X-C19": ("C19", "addr_canonicalize caches decoded strings in a thread-local map keyed without the checksum variant: a Bech32 and a Bech32m Api with the same prefix on one thread accept each other's addresses after the first has seen them"),
 "Y-C01": ("C01", "MergeOverlay: a pending overwrite of a key the backing store holds no longer hides the backing record in range (only deletes do): a later message of one execute_multi that enumerates storage sees the key twice, new value then old (breaks 'each seeing its predecessors' effects')"),
 "Y-C02": ("C02", "ContractWrapper::with_migrate_empty drops the reply entry point (W-C20 again, written against C02): a lifted contract built reply-then-migrate cannot absorb a failure"),
 "Y-C03": ("C03", "execute_submsg: 'fast path for plain messages' chosen by id == 0 instead of reply_on Never: no reply for a sub-message with id 0, a failure with Error/Always aborts the caller"),
 "Y-C04": ("C04", "execute_submsg's error arm keeps only the events of the reply and returns data None: data set by a reply that handled a FAILED sub-message no longer replaces the caller's data"),
 "Y-C05": ("C05", "WasmKeeper::get_env builds the Env from mock_env() and carries over only height and time: contracts are always told the default chain id"),
 "Y-C06": ("C06", "StorageTransaction::range returns the base iterator directly when no pending change lies within the bounds, testing start >= greatest pending key (should be >): a range starting exactly at the greatest pending key ignores that key's pending entry"),
 "Y-C07": ("C07", "PrefixedStorage (mutable view only) swaps inverted bounds of a descending range: range(Some(hi), Some(lo), Descending) returns [lo, hi) instead of nothing"),
 "Y-C08": ("C08", "StorageTransaction::set logs a write only if the layer below does not already hold that value: a key changed and later set back to the value below reads back right during the call but commits the overwritten value"),
 "Y-C09": ("C09", "WasmKeeper::send skips the transfer of attached funds when sender == recipient: a contract calling itself with funds it does not own / all-zero funds is no longer refused (T-C05's site, written against C09)"),
 "Y-C11": ("C11", "the Instantiate2 arm passes None as admin: every salted contract is recorded without the admin that was supplied (needs cosmwasm_1_2)"),
 "Y-C12": ("C12", "Migrate skips the admin check when the sender is the contract being migrated: a contract that is not its own admin can migrate itself"),
 "Y-C13": ("C13", "customize_response (lifting of Empty-typed entry points) no longer carries over the response's events: malformed custom events of lifted contracts are not seen by verify_response, well-formed ones never surface"),
 "Y-C14": ("C14", "slash rebuilds the unbonding queue with the slashed validator's entries FIRST: an earlier-maturing unbonding of another validator is stuck behind them and paid late"),
 "Y-C15": ("C15", "update_rewards credits stakers only when the validator's accrual since the last settlement is at least one token, but still advances the settlement time: frequent settlements lose the rewards of each short interval"),
 "Y-C16": ("C16", "Undelegate merges a new unbonding into the last queue entry of the same delegator and payout time, forgetting the validator: slashing one validator scales / spares the other's merged tokens"),
 "Y-C17": ("C17", "ContractWrapper::reply returns Ok(default) when the contract has no reply entry point: a failing module under reply_on Error/Always is reported as handled by a handler that does not exist"),
 "Y-C18": ("C18", "addr_make hashes input.trim(): names differing only by surrounding white space give the same address"),
 "Y-C19": ("C19", "a wasmd-style nesting limit for smart queries keeps its depth in a thread-local and leaks one level whenever the address text fails validation: after ten such queries on a thread every App's smart queries fail"),
 "Z-C01": ("C01", "execute_submsg's tail rewritten as and_then(success reply).or_else(error reply): an error raised while handling the SUCCESS reply is handed to the same reply as Err and can be absorbed (S-C02 again, written against C01)"),
 "Z-C02": ("C02", "verify_response rejects a contract response that carries an Instantiate sub-message with an empty label: the failure is raised in the dispatching contract's own call, so reply_on Error/Always cannot absorb it"),
 "Z-C03": ("C03", "a failed sub-message is not handed to reply when its error is one of the crate's typed Errors (malformed response, duplicate salted address, unregistered code id)"),
 "Z-C04": ("C04", "sudo results go through the same tail as migrate: their data is wrapped in the execute-response encoding"),
 "Z-C05": ("C05", "WasmMsg::Execute normalises the callee address but transfers the attached funds to the raw string: a callee named by the upper-case spelling runs without the funds on its account"),
 "Z-C06": ("C06", "MergeOverlay: a pending Set over a base key no longer hides the base record in range (only tombstones do): the key is listed twice"),
 "Z-C07": ("C07", "multilevel views are built as new(first segment) + nested(rest) with b\"\" for a missing first segment: the zero-segment view gets the prefix 00 00 instead of the whole store"),
 "Z-C08": ("C08", "range_with_prefix counts the trailing 0xFF bytes of the START key instead of the namespace when no end is given: a contract iterating from a start bound ending in 0xFF gets nothing, other contracts' entries, or a panic"),
 "Z-C09": ("C09", "Z-C06's change seen through the bank: a supply query issued by a contract after a balance was rewritten in the same transaction counts that account twice"),
 "Z-C10": ("C10", "Z-C06's change seen through iterating queries inside a transaction"),
 "Z-C11": ("C11", "register_contract canonicalises the creator also for unsalted instantiations: a stored code cannot be instantiated by a creator the Api cannot canonicalise (a plain name, a foreign prefix)"),
 "Z-C12": ("C12", "update_admin flattens a new admin that fails validation to None: UpdateAdmin by the admin with a malformed address clears the admin and reports success"),
 "Z-C13": ("C13", "verify_attributes / verify_response trim with trim_ascii(): keys and types blanked by non-ASCII white space (U+00A0, U+2003, U+0085) or U+000B are accepted"),
 "Z-C14": ("C14", "App::set_block runs the unbonding queue before adopting the new block: an unbonding that matures by a set_block is paid one block update late"),
 "Z-C15": ("C15", "share_of_rewards uses the whole-token part of the stake: the fractional part of a stake left by a partial slash earns nothing (within the statement's tolerance unless held for decades; dropping sub-token remainders is allowed by C16, so not asserted)"),
 "Z-C16": ("C16", "slash returns Ok early for a fraction of exactly zero, before the validator's existence is checked: slashing an unknown validator by 0 is accepted"),
 "Z-C17": ("C17", "the router's arm for CosmosMsg::Any is compiled only with stargate AND cosmwasm_2_0: in a build with cosmwasm_2_0 but without stargate, Any messages never reach the configured handler (a feature set the checks do not build)"),
 "Z-C18": ("C18", "addr_canonicalize decodes with bech32::decode, which accepts either checksum variant: the other variant's addresses are canonicalised"),
 "Z-C19": ("C19", "the 'entry point missing' errors of ContractWrapper include a Debug rendering of the wrapper with the heap addresses of its boxed closures: the error text handed to a reply differs between two Apps"),
 "Z-C20": ("C20", "customize_msg's arm for the deprecated CosmosMsg::Stargate is compiled out when cosmwasm_2_0 is on: an entry point supplied through an *_empty step that returns such a message panics"),
 "Y-C20": ("C20", "customize_response sets data with unwrap_or_default (W-C04 again, written against C20): entry points supplied through the *_empty steps return Some(empty) where the supplied function returned no data"),
 "Y-C10": ("C10", "StorageTransaction::set returns early when the backing store already holds the value (T-C06 / U-C01 again, written against C10)"),
 "X-C20": ("C20", "AppBuilder::with_block copies chain_id only when it is non-empty: a supplied block with an empty chain id keeps the default one"),
 "W-C20": ("C20", "ContractWrapper::with_migrate_empty rebuilds the wrapper with reply_fn: None: a reply handler supplied before with_migrate_empty is lost"),
 "V-C20": ("C20", "ContractWrapper::with_checksum keeps the FIRST checksum (get_or_insert): only visible when with_checksum is applied twice with different values, which no subset / permutation of distinct steps does"),
 "U-C20": ("C20", "AppBuilder::new_custom starts from a literal block whose time lacks the sub-second part of mock_env().block: apps from new_custom / custom_app without with_block start 879305533 ns earlier than App::default()"),
}

ATTRIBUTION = {
 "T-C01": "reported by C02 (`State`): what the change breaks is 'a failed sub-message leaves no trace'; the top-level all-or-nothing statement of C01 still holds for it (DESIGN R1.4)",
 "T-C15": "written against the tree before the C15 repair; the patch no longer applies. The equivalent change against the repaired code is mutants/m15-subsecond-remainder-dropped.diff, which C15 reports",
 "V-C10": "an atomicity defect (effects of a failed wasm_sudo tree are committed; queries faithfully show that committed state): reported by C01, C13 and C17, not by C10 (DESIGN R1.6)",
 "V-C20": "outside the statement's quantifier (no subset / permutation of steps repeats a step) and the statement does not say which of two supplied checksums is kept: deliberately not asserted (DESIGN R1.6)",
 "Z-C01": "S-C02's change again (a failing success-reply absorbed by the error reply): reported by C02 (`AbsorbedFailure`) and C03; the first divergence is in who is replied to, which is their clause, not C01's",
 "Z-C15": "within the interval the statement allows once C16's 'sub-token remainders may additionally be dropped' is taken into account: the lower bound is computed from the whole-token stake; not asserted (DESIGN R1.10)",
 "Z-C17": "needs a build of the subject with cosmwasm_2_0 but without stargate; the checks build one feature set (staking, stargate, cosmwasm_2_2): out of reach, stated in DESIGN section 7",
 "W-C10": "a reward-arithmetic defect (V-C15 again): reported by C15 and C16; the query itself is pure and repeatable, so C10 stays silent (DESIGN R1.7)",
}

def main(logs):
    res = {}
    for lg in logs:
        for line in open(lg):
            m = re.match(r"^([STUVWXYZ]-C\d+) (\S+)(?: (.*))?$", line.strip())
            if not m: continue
            sid, key, rest = m.group(1), m.group(2), m.group(3) or ""
            r = res.setdefault(sid, {"checks": {}, "verified": {}})
            if key == "demo" and rest.startswith("without change:"):
                pass
            if key == "baseline:": r["verified"]["baseline_suite_with_change"] = rest
            elif key == "demo":
                if rest.startswith("without change:"): r["verified"]["demo_without_change"] = rest.split(":",1)[1].strip()
                elif rest.startswith("with change:"): r["verified"]["demo_with_change"] = rest.split(":",1)[1].strip()
            elif re.match(r"C\d+$", key): r["checks"][key] = rest
    rows = []
    for sid in sorted(TRIGGERS):
        prop, trig = TRIGGERS[sid]
        d = os.path.join(ROOT, "seeded", sid)
        if not os.path.isdir(d): continue
        r = res.get(sid, {"checks": {}, "verified": {}})
        detected = sorted(k for k, v in r["checks"].items() if v.startswith("DETECTED"))
        meta = {
            "id": sid, "breaks_property": prop,
            "origin": "fresh sub-agent given only the text of the property and a scratch git worktree of /repo (nothing from /verif)",
            "needs_in_order_to_manifest": trig,
            "files": ["patch.diff", "seed_demo.rs", "NOTES.md (the sub-agent's own notes)"],
            "what_was_run": [
                "tools/selftest.sh --baseline --demo seeded/%s/seed_demo.rs seeded/%s/patch.diff <all check ids>" % (sid, sid),
                "i.e. on a scratch copy of /repo HEAD: demo without the change, patch applied, demo with the change, `cargo test --workspace --no-fail-fast --offline`, harness rebuilt against the copy, every quick check",
            ],
            "confirmed": r["verified"],
            "quick_checks": r["checks"],
            "detected_by": detected,
            "own_property_detected": prop in detected,
        }
        if sid in ATTRIBUTION:
            meta["note"] = ATTRIBUTION[sid]
        json.dump(meta, open(os.path.join(d, "meta.json"), "w"), indent=1)
        own = "yes" if prop in detected else ("NO" if r["checks"] else "not run")
        if sid in ATTRIBUTION and own != "yes":
            own = "no - " + ATTRIBUTION[sid]
        rows.append((sid, prop, own, ", ".join(detected), trig))
    with open(os.path.join(ROOT, "seeded", "README.md"), "w") as f:
        f.write("# Seeded property-breaking changes (from sub-agents)\n\nS-* = round 1, T-* = round 2, U-* = round 3, V-* = round 4, W-* = round 5, X-* = round 6, Y-* = round 7, Z-* = round 8 (from round 2 on the sub-agent was told the earlier changes as 'already taken'). Each directory holds `patch.diff` (apply with `git -C /repo apply`), the demonstration test `seed_demo.rs`, the sub-agent's `NOTES.md` and `meta.json`.\nAll were re-verified with `tools/selftest.sh` on a scratch copy of /repo: the baseline suite passes with the change, the demonstration passes without and fails with it.\n\n| seed | breaks | own check detects | all quick checks that fail | needs |\n|---|---|---|---|---|\n")
        for row in rows:
            f.write("| %s | %s | %s | %s | %s |\n" % row)
    print("\n".join("%s %s own=%s all=[%s]" % r[:4] for r in rows))

main(sys.argv[1:])
