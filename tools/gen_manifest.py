#!/usr/bin/env python3
"""Generates /verif/MANIFEST.json from the table below (keeps the manifest valid and consistent)."""
import json, os, subprocess
ROOT = os.path.dirname(os.path.dirname(os.path.abspath(__file__)))

TREE_NOTE = "Trusted: TreeModel (mc/src/tree/model.rs, ~400 lines written from the statements), the scripted puppet contract and its out-of-band trace, SnapStorage, the classification of divergences by kind (only the first divergence of a trace is classified; kinds that belong to other properties are counted in the evidence, not reported). Contract address values come from the subject's public address generator. Not covered: trees above the size bound, message kinds outside the family alphabets."
TREE_TECH = "bounded-exhaustive enumeration (ranked/unranked grammar, nothing sampled) of message-tree programs x start states, each executed on the real App and on a reference interpreter in lock-step; refinement check of trace, outcome, response and final state per execution"
CHECKS = {
 "C01": dict(engine="E2 tree", ref="DESIGN.md §4 C01", technique=TREE_TECH + "; plus exhaustive execute_multi sequences",
   text="Every message-tree program up to the size bound (quick 6 / thorough 7 nodes for execute; 4 / 6 for the other entry points) with a failure flag on every leaf position is submitted through execute, wasm_sudo, sudo(Wasm), the instantiate / execute / migrate / send_tokens helpers and sudo(Bank), from genesis, six fixed non-initial states and every state reachable by 1 (2) small transactions; execute_multi runs every sequence of 1..3 messages over all small programs. Asserted: Err => every byte of storage and the block unchanged (model-free); Ok => every state cell the tree had to change holds the model's value; helpers return the model's address; execute_multi runs in order, each message sees its predecessors, one response per message identified by its unique data.",
   note=TREE_NOTE + " Whether an outcome should be Ok or Err is decided by the other properties; C01 judges only atomicity, ordering and persistence."),
 "C02": dict(engine="E2 tree", ref="DESIGN.md §4 C02", technique=TREE_TECH,
   text="All programs of the control-flow grammar (calls to self/other, bank leaves that succeed or overdraw, four reply_on modes, failing bodies and failing reply handlers at every position) up to 6 / 7 nodes from genesis, up to 4 / 5 from six non-initial states and up to 3 / 4 from every state reachable by 1 / 2 small transactions, plus the rich-message family (burn, delegate, admin changes, instantiate, migrate, funded calls) up to 3 / 4. Asserted per execution: top-level Ok/Err equals the model's (absorbed iff reply_on Error/Always and the reply succeeds), the final state equals the model's (writes, overwrites, deletes and funds of discarded sub-trees are gone, earlier siblings' effects stay), and the storage and query views at every entry show exactly the completed, not-rolled-back effects.",
   note=TREE_NOTE),
 "C03": dict(engine="E2 tree", ref="DESIGN.md §4 C03", technique=TREE_TECH,
   text="Same program space as C02 (with unique sub-message ids, empty and non-empty payloads, call / bank / instantiate / migrate sub-messages). The recorded invocation sequence must equal the model's as a whole: reply exactly once where (ok and Success/Always) or (err and Error/Always) and never otherwise, on the dispatching contract, after the sub-message's subtree and before the next sibling, with id and payload unchanged, Ok/Err as the sub-message ended, and events / data equal to what that sub-message produced (events additionally cross-checked against the slice the sub-message contributed to the transaction's own response).",
   note=TREE_NOTE + " A Reply whose events differ from the model but equal what the sub-message contributed to the top-level response is attributed to C04, not C03."),
 "C04": dict(engine="E2 tree", ref="DESIGN.md §4 C04", technique=TREE_TECH,
   text="Data/event-focused family: every tree up to 3 (thorough 4) nodes x every reply_on assignment x per node {data absent / present-but-empty / unique} x {attributes or none} x {custom events or none} x {fails or not} for root kinds execute, instantiate, migrate, sudo and the execute helper, plus the control-flow family up to 6 / 7 nodes and the rich family. Compared with the model: event types and order, entry-point events carry the address, wasm event = address + attributes unchanged, custom events renamed wasm-<type> with the address first, transfer events, nothing from failed sub-messages; data = last reply that set data else own, execute/migrate wrapped only when present, instantiate always wrapped (hand-encoded protobuf); the same for every Reply payload.",
   note=TREE_NOTE + " Extra attributes on entry-point events (code_id, mode) are ignored."),
 "C05": dict(engine="E2 tree", ref="DESIGN.md §4 C05", technique=TREE_TECH,
   text="Funds-focused family: every tree up to 4 / 5 nodes in which every call and instantiate (and the entry) carries one of {no funds, one coin, two denominations, more than anyone owns}, through execute / instantiate / sudo / migrate entries, by a rich and a penniless signer, from three blocks (initial, after update_block, after set_block with other height, time and chain id); plus the control-flow family up to 5 / 6 nodes from all three blocks. Every entry-point record must show the model's sender (signer at top level, emitting contract below, also for messages from reply handlers), the callee's own address, the App's block, the funds attached, and an own balance that already includes them; failing calls give the funds back (next entry's balances), and over-attached funds never run the callee.",
   note=TREE_NOTE),
 "C08": dict(engine="E3 explore", ref="DESIGN.md §4 C08", technique="layered breadth-first search over raw chain states (full storage dump) with operations executed on the real App and on the reference model; witness-path replay of every new state",
   text="From a state in which bank, staking and the registry hold entries: every sequence of <=2 (thorough 3) operations over {contract X in {A,B,C} sets / removes key k, App::contract_storage_mut(X) sets / removes k, bank send, delegation, instantiate}, k in {empty key, 'k', 0xFF, an existing key} plus adversarial keys harvested from the raw state itself (raw keys of other contracts, of balances, of staking entries, of the registry, and their length-prefix-boundary prefixes and suffixes). After every transition all other contracts, all balances, delegations and registry entries must be unchanged (model comparison through public accessors), and in every state the four views agree for every contract and key: the contract's own reads (trace), WasmQuery::Raw, dump_wasm_raw, App::contract_storage get and range.",
   note="Trusted: TreeModel's one-map-per-contract storage, the harvested key alphabet. Not built: the world with prefix-related addresses (custom Api/AddressGenerator) sketched in DESIGN.md."),
 "C09": dict(engine="E3 explore", ref="DESIGN.md §4 C09", technique="explicit-state search to the fixpoint over all reachable ledgers under a supply cap, real bank keeper as transition function, lock-step ledger model; state count cross-checked with stateright",
   text="Accounts {a, b, never-seen c, contract K}, coin lists {[], [0x], [1x], [2x], [1x,1y], [1x,1x], [0x,1y], [0x,0y], [3x]} (thorough: more), operations sudo Mint (while supply <= cap 2 / 3 per denom), Send between all ordered pairs incl. self, Burn, contract-initiated Send/Burn, funds attached to a call, send_tokens, init_balance. The reachable state space is finite and explored completely (closure, not a depth cut). Every transition is compared with the ledger model (fails iff no positive amount or a balance would go negative; nothing changes on failure); in every state Balance, AllBalances (sorted, no zeros, no duplicates) and Supply agree with each other and the model and supply = sum of balances.",
   note="Trusted: the ledger model in TreeModel (MState::send/burn/mint). Amounts near 2^128 are excluded by the statement."),
 "C10": dict(engine="E2 tree", ref="DESIGN.md §4 C10", technique=TREE_TECH + "; plus exhaustive query-kind sweep in every explored state",
   text="Every entry of every program of the control-flow family (<= 6 / 7 nodes), and with the extended bundle (Raw, ContractInfo, CodeInfo, Delegation, Custom, all balances) of the families up to 5 / 6 nodes, issues a fixed bundle of queries before its own writes; the answers must equal the model's state at that point (completed effects visible incl. funds just received, rolled-back ones not). Through App: in every start state and every state reachable by 1 / 2 small transactions every query kind x every address/key of the alphabet (incl. malformed requests) is issued twice: same answer, zero raw writes (counted in the storage), storage byte-identical, answers equal to the committed model state.",
   note=TREE_NOTE + " Visibility of a contract's own uncommitted writes to its own queries is not asserted."),
 "C11": dict(engine="E3 registry", ref="DESIGN.md §4 C11", technique="layered breadth-first search over (code registry, raw storage) states with the real App rebuilt per transition, lock-step RegistryModel, history replay of every new state",
   text="All histories up to depth 4 / 6 over store_code, store_code_with_creator, store_code_with_id(0,1,2,3,5[,9]), duplicate_code(same ids), instantiate and instantiate2 (codes incl. missing ones, two creators, labels/admins, three salts incl. 64 bytes, init ok/failing), instantiate inside a transaction that then fails, migrate to every id. Asserted: id assignment (max+1, chosen ids honoured, 0 and duplicates rejected without effect), every stored or duplicated id answers CodeInfo (duplicates share creator and checksum) and can be instantiated and migrated to, fresh addresses, salted address single-valued over the whole exploration and injective, repeats rejected without effect, recorded code id / creator / admin / label.",
   note="Trusted: RegistryModel (mc/src/reg.rs). An accepted empty label is not asserted."),
 "C12": dict(engine="E3 explore", ref="DESIGN.md §4 C12", technique="explicit-state search (quick: depth 3; thorough: to the fixpoint) over admin/code/storage states, real wasm keeper as transition function, lock-step model; state count cross-checked with stateright",
   text="Contracts A (admin: creator), B (admin: contract A), C (no admin); senders creator, stranger, and contracts A/B acting through sub-messages (reply_on Never and Error); operations UpdateAdmin(to creator/stranger/A), ClearAdmin, Migrate(code 1/2/missing, migrate entry ok/failing), Execute, sudo. Every transition: succeeds iff sender is the current admin (and code exists, entry succeeds), otherwise nothing changes; after a migration the trace shows the new code's migrate entry ran once at the same address on the existing storage and every later call is served by the new code; admin changes govern the next attempt.",
   note="Trusted: TreeModel's admin/migrate rules."),
 "C13": dict(engine="E2 tree", ref="DESIGN.md §4 C13", technique="exhaustive cross product of strings x positions x entry points x contexts on the real App; differential verdict against two reference runs (validity decided correctly / the wrong way round)",
   text="22 strings (empty, whitespace, underscores in every position, 1-2 byte boundary incl. 2-byte 'é', untrimmed forms) x {attribute key, attribute value, event attribute key, event attribute value, event type} x entry points {execute, instantiate, migrate, sudo, reply} x contexts {top level; sub-message under each reply_on; two levels deep; reply handler of ok/failed child, one and two levels deep}, the node writing and receiving funds first. The real run must equal the model that applies the stated predicate; equality with the model that decides the opposite is a violation; valid strings must surface unchanged in the emitted events.",
   note=TREE_NOTE + " Only ASCII whitespace and non-whitespace Unicode occur in the alphabet."),
 "C14": dict(engine="E3 staking", ref="DESIGN.md §4 C14", technique="layered breadth-first search over staking histories (state = raw storage + block + hidden exact-rational model), per-transition relation check with interval oracles, invalid operations tried in every explored state, history replay of every new state",
   text="All histories to depth 6 over a 12-operation alphabet (thorough: depth 7, and depth 6 over 20 operations) of delegate / undelegate / redelegate / withdraw / set withdraw address / slash (25, 50, 100%) / update_block (59 s, 60 s, 1 year) / set_block for two delegators and two validators; in every explored state 17 invalid operations (zero, foreign denom, unknown validator, too much, fraction > 1). Asserted: exact balance / pool / shown-delegation changes, invalid operations fail without changing a byte, matured unbondings are paid within [floor(exact) - #slashes, floor(exact)] and nothing earlier, Delegation and AllDelegations agree, no call or block update panics or fails.",
   note="Trusted: the exact-rational hidden model and the per-operation relation in mc/src/staking.rs. A valid undelegation failing in a state with fractional shares is tolerated (counted)."),
 "C15": dict(engine="E3 staking", ref="DESIGN.md §4 C15", technique="layered breadth-first search over reward histories with an exact-rational reward bound per delegation; split-vs-unsplit block update variants from every explored state",
   text="All histories to depth 5 / 6 over stakes 100 and 333, commissions 10% and 0%, time steps 1/3 y, 1/2 y, (1 y,) 1 s, withdrawals, withdraw-address changes, undelegation and a 50% slash. In every state: withdrawn + pending <= sum of stake x apr x (1 - commission) x dt / year and > lower bound - (withdrawals + 1) - 1e-9; a successful withdrawal pays exactly the pending amount shown before to the current withdraw address, resets it, mints nothing else, leaves other pairs' pending untouched. From every explored state every advance step is also run split into 2 and 3 block updates; pending must agree (+-1 only when the exact reward is within 1e-9 of a whole token).",
   note="Trusted: the reward accumulator of the hidden model. The 1e-9 slack admits the 18-decimal fixed-point rounding the statement itself mentions. Rewards forfeited when a delegation drops to zero are outside the statement."),
 "C16": dict(engine="E3 staking", ref="DESIGN.md §4 C16", technique="layered breadth-first search over staking histories; in every explored state every slash fraction on every validator, followed by a second slash and maturity",
   text="All histories to depth 4 / 5 over delegations of 2-4 tokens, undelegation, redelegation, time steps and slashes of 10% / 50%; in every explored state each fraction {0, 10, 25, 50, 99, 100, 101, 200%} on v1, v2 and an unknown validator, then 25% again and a block update maturing all unbondings. Asserted per pair: new shown delegation in [floor((1-p) x old shown), floor((1-p) x exact shares)], never larger than before, gone (also from AllDelegations) for p = 1; other validators' delegations, all balances and accrued rewards unchanged; fractions > 1 and unknown validators rejected without changing a byte; unbondings later pay within the C14 interval.",
   note="Trusted: exact shares of the hidden model (an upper bound of what any implementation holds)."),
 "C18": dict(engine="E4 cfg", ref="DESIGN.md §4 C18", technique="exhaustive input enumeration against an independent BIP-173/350 reference codec",
   text="Codecs {MockApiBech32, MockApiBech32m, MockApi} x prefixes {a, juno, cosmwasm, osmo1x, an 83-character one}: all byte strings of length 1 and 2 (thorough: all 16.7 M of length 3), all strings over {00, ff} up to length 12, seven patterns for every length up to 64; all names of length <= 3 over {a, b, 0, space, é}; for ten valid addresses per codec every single-character substitution (bech32 charset, separator, b/i/o, case flip), deletion, mixed-case form, the other checksum variant, other prefixes, and re-checksummed non-canonical spellings (non-zero padding bits, extra zero groups). Asserted: round trip, humanize equals the reference encoder, validate returns its input unchanged whenever it accepts, every corruption / foreign string rejected, addr_make deterministic, valid and injective, helper traits agree with the Api.",
   note="Trusted: Bech32Ref (mc/src/addr.rs). All-upper-case input is not asserted either way."),
 "C19": dict(engine="E3 det", ref="DESIGN.md §4 C19", technique="exhaustive enumeration of histories and of interleavings of history pairs on independent App instances; transcript equality; digest recomputed in a second OS process",
   text="(a) every history up to length 4 / 5 over 10 / 14 operations (store / duplicate / store-with-id, instantiate ok and failing, instantiate2, execute ok / failing / with caught failure, sudo, bank send, mint, delegate, update_block) run on two independently built Apps: results, events, data, code ids, addresses, checksums, invocation traces and final raw dump identical; (b) every ordered pair of histories up to length 2 / 3 on two Apps in one thread under every interleaving: each transcript equals its solo transcript; (c) the digest of everything equals the digest computed by a second process with another worker-thread count.",
   note="Dependence on wall-clock time or randomness is only visible if it changes an observable between two runs within the check."),
 "C06": dict(engine="E1 kv", ref="DESIGN.md §4 C06",
   technique="exhaustive enumeration of overlay configurations and operation histories on the real write-cache, lock-step comparison with an ordered-map model",
   text="Every configuration of a 1-3 level write-cache stack over a 4-6 key alphabet (base present/absent x untouched/set/deleted per level) and every well-formed history of set/remove/push/commit/discard up to length 5-8 is executed on the real StorageTransaction / transactional() (hook `verif`) and every get and every range (all bound pairs incl. empty, inverted, equal; both orders) is compared with a plain BTreeMap model on the top level, every lower level and the base. Bounded-exhaustive: no case inside the alphabet is skipped.",
   note="Trusted: the BTreeMap reference model (60 lines), SnapStorage/MockStorage as bases, the pass-through hook wrappers. Keys outside the alphabet and nesting > 3 are not covered."),
 "C07": dict(engine="E1 kv", ref="DESIGN.md §4 C07",
   technique="exhaustive enumeration of namespace paths x raw base contents x write sequences through App's prefixed views, compared with a prefix-filter model of the raw store",
   text="For every namespace path of 0-2 (thorough 3) segments over an adversarial segment alphabet (empty, prefixes of each other, 0xFF endings, a segment spelling another path's prefix, a 65535-byte all-0xFF segment), every subset of a raw-key alphabet around the path's prefix (well-formed keys plus malformed neighbours just below/above the window) and every sequence of <=2/3 writes through the view: all gets, all ranges (bounds x orders), the raw diff after each write and the reads through related views (parent, child, sibling, empty path) are compared with the model view(path) = {raw keys starting with enc(path)}.",
   note="Trusted: the 2-byte big-endian length-prefix encoder of the model (named by the statement), SnapStorage as raw store. Segments/keys outside the alphabet are not covered."),
}

NOT_YET = "check under construction in this round; not claimed until its engine is committed"

def main():
    props = [json.loads(l) for l in open(os.path.join(ROOT, "properties.jsonl"))]
    try:
        hooks = subprocess.check_output(["git", "-C", "/repo", "log", "--format=%h %s"], text=True).splitlines()
        hook_commits = [l.split()[0] for l in hooks if l.split(" ", 1)[1].startswith("verif hooks")]
    except Exception:
        hook_commits = []
    checks, na = [], []
    for p in props:
        pid = p["id"]
        c = CHECKS.get(pid)
        if not c:
            na.append({"property_id": pid, "reason": NOT_YET})
            continue
        checks.append({
            "property_id": pid,
            "quick_cmd": f"./check {pid} quick",
            "thorough_cmd": f"./check {pid} thorough",
            "evidence_file": f"/verif/evidence/{pid}.json",
            "replay_cmd_template": "./check replay {path}",
            "engine": c["engine"],
            "level_claimed": {"category": "model_checking", "text": c["text"], "design_ref": c["ref"]},
            "level_note": c["note"],
            "technique": c["technique"],
        })
    m = {
        "version": 1,
        "setup_cmd": "cd /verif/mc && CARGO_NET_OFFLINE=true cargo build --release --offline",
        "hooks": {
            "guard": "cargo feature `verif` of cw-multi-test",
            "enable": "the harness crate /verif/mc depends on cw-multi-test (path=/repo) with features [staking, stargate, cosmwasm_2_2, verif]; every ./check rebuilds it from /repo's working tree",
            "baseline_off_cmd": "cd /repo && cargo test --workspace --no-fail-fast --offline",
            "source_commits": hook_commits,
            "add_only": True,
        },
        "engines": [
            {"name": "E1 kv", "path": "mc/src/kv.rs", "serves_properties": ["C06", "C07"], "kind_free_text": "bounded-exhaustive enumeration of KV configurations/histories on the real overlay and prefixed views vs. ordered-map models"},
            {"name": "E2 tree", "path": "mc/src/tree/", "serves_properties": ["C01", "C02", "C03", "C04", "C05", "C10", "C13"], "kind_free_text": "ranked grammar of message-tree programs, scripted puppet contracts with out-of-band trace, TreeModel reference interpreter, divergence classifier"},
            {"name": "E3 explore", "path": "mc/src/tree/explore.rs, mc/src/tree/hist.rs", "serves_properties": ["C08", "C09", "C12"], "kind_free_text": "layered BFS over raw chain states with tree programs as operations, witness-path replay, stateright cross-check of closures"},
            {"name": "E3 registry", "path": "mc/src/reg.rs", "serves_properties": ["C11"], "kind_free_text": "BFS over (code registry, storage) histories vs RegistryModel"},
            {"name": "E3 staking", "path": "mc/src/staking.rs", "serves_properties": ["C14", "C15", "C16"], "kind_free_text": "BFS over staking histories with exact-rational interval oracle"},
            {"name": "E3 det", "path": "mc/src/det.rs", "serves_properties": ["C19"], "kind_free_text": "histories and interleavings on independent App instances"},
            {"name": "E4 cfg", "path": "mc/src/addr.rs", "serves_properties": ["C18"], "kind_free_text": "input enumeration vs an independent bech32 codec"},
        ],
        "checks": checks,
        "not_applicable": na,
        "notes": "All checks are ./check <id> <tier>; exit 0/1 by verdict, exit 2 + MACHINERY-ERROR for harness failures. known_findings.json lists recorded defects; replays/ holds generated counterexamples.",
    }
    json.dump(m, open(os.path.join(ROOT, "MANIFEST.json"), "w"), indent=1)
    print("claimed:", [c["property_id"] for c in checks], "not claimed:", len(na))

main()
