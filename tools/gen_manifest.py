#!/usr/bin/env python3
"""Generates /verif/MANIFEST.json from the table below (keeps the manifest valid and consistent)."""
import json, os, subprocess
ROOT = os.path.dirname(os.path.dirname(os.path.abspath(__file__)))

CHECKS = {
 "C06": dict(engine="E1 kv", ref="DESIGN.md §4 C06",
   technique="exhaustive enumeration of overlay configurations and operation histories on the real write-cache, lock-step comparison with an ordered-map model",
   text="Every configuration of a 1-3 level write-cache stack over a 4-6 key alphabet (base present/absent x untouched/set/deleted per level) and every well-formed history of set/remove/push/commit/discard up to length 5-8 is executed on the real StorageTransaction / transactional() (hook `verif`) and every get and every range (all bound pairs incl. empty, inverted, equal; both orders) is compared with a plain BTreeMap model on the top level, every lower level and the base. Bounded-exhaustive: no case inside the alphabet is skipped.",
   note="Trusted: the BTreeMap reference model (60 lines), SnapStorage/MockStorage as bases, the pass-through hook wrappers. Keys outside the alphabet and nesting > 3 are not covered."),
 "C07": dict(engine="E1 kv", ref="DESIGN.md §4 C07",
   technique="exhaustive enumeration of namespace paths x raw base contents x write sequences through App's prefixed views, compared with a prefix-filter model of the raw store",
   text="For every namespace path of 0-2 (thorough 3) segments over an adversarial segment alphabet (empty, prefixes of each other, 0xFF endings, a segment spelling another path's prefix, a 65535-byte all-0xFF segment), every subset of a raw-key alphabet around the path's prefix (well-formed keys plus malformed neighbours just below/above the window) and every sequence of <=2/3 writes through the view: all gets, all ranges (bounds x orders), the raw diff after each write and the reads through related views (parent, child, sibling, empty path) are compared with the model view(path) = {raw keys starting with enc(path)}.",
   note="Trusted: the 2-byte big-endian length-prefix encoder of the model (named by the statement), SnapStorage as raw store. Segments/keys outside the alphabet are not covered."),
}

NOT_YET = "check under construction in this round; not claimed until its engine is committed"

def main():
    props = [json.loads(l) for l in open(os.path.join(ROOT, "properties.jsonl"))]
    try:
        hooks = subprocess.check_output(["git", "-C", "/repo", "log", "--format=%h %s"], text=True).splitlines()
        hook_commits = [l.split()[0] for l in hooks if l.split(" ", 1)[1].startswith("verif hooks")]
    except Exception:
        hook_commits = []
    checks, na = [], []
    for p in props:
        pid = p["id"]
        c = CHECKS.get(pid)
        if not c:
            na.append({"property_id": pid, "reason": NOT_YET})
            continue
        checks.append({
            "property_id": pid,
            "quick_cmd": f"./check {pid} quick",
            "thorough_cmd": f"./check {pid} thorough",
            "evidence_file": f"/verif/evidence/{pid}.json",
            "replay_cmd_template": "./check replay {path}",
            "engine": c["engine"],
            "level_claimed": {"category": "model_checking", "text": c["text"], "design_ref": c["ref"]},
            "level_note": c["note"],
            "technique": c["technique"],
        })
    m = {
        "version": 1,
        "setup_cmd": "cd /verif/mc && CARGO_NET_OFFLINE=true cargo build --release --offline",
        "hooks": {
            "guard": "cargo feature `verif` of cw-multi-test",
            "enable": "the harness crate /verif/mc depends on cw-multi-test (path=/repo) with features [staking, stargate, cosmwasm_2_2, verif]; every ./check rebuilds it from /repo's working tree",
            "baseline_off_cmd": "cd /repo && cargo test --workspace --no-fail-fast --offline",
            "source_commits": hook_commits,
            "add_only": True,
        },
        "engines": [
            {"name": "E1 kv", "path": "mc/src/kv.rs", "serves_properties": ["C06", "C07"], "kind_free_text": "bounded-exhaustive enumeration of KV configurations/histories on the real overlay and prefixed views vs. ordered-map models"},
        ],
        "checks": checks,
        "not_applicable": na,
        "notes": "All checks are ./check <id> <tier>; exit 0/1 by verdict, exit 2 + MACHINERY-ERROR for harness failures. known_findings.json lists recorded defects; replays/ holds generated counterexamples.",
    }
    json.dump(m, open(os.path.join(ROOT, "MANIFEST.json"), "w"), indent=1)
    print("claimed:", [c["property_id"] for c in checks], "not claimed:", len(na))

main()
