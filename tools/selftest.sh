#!/bin/bash
# usage: tools/selftest.sh [--baseline] <patch.diff> <ID> [<ID>...]
# Applies the patch to a scratch copy of /repo (outside /repo and /verif), optionally runs the
# repository's baseline tests there, builds the harness against the copy (cargo `paths`
# override, separate target dir) and runs the quick check of each ID. Prints one line per ID:
#   <patch> <ID> DETECTED|MISSED|MACHINERY (exit code)
# Removes the scratch copy afterwards (the target dirs under /tmp/cwmt-* are caches only).
set -u
BASELINE=0; DEMO=""; DEMOFEAT=""
while true; do
  case "$1" in
    --baseline) BASELINE=1; shift;;
    --demo) DEMO=$(readlink -f "$2"); shift 2;;
    --demo-features) DEMOFEAT="--features $2"; shift 2;;
    *) break;;
  esac
done
PATCH=$(readlink -f "$1"); shift
NAME=$(basename "$PATCH" .diff); [ "$NAME" = patch ] && NAME=$(basename "$(dirname "$PATCH")")
export CARGO_NET_OFFLINE=true
# SELFTEST_LANE=<suffix>: own build caches, so that several invocations can run side by side
LANE=${SELFTEST_LANE:-}
SCR=$(mktemp -d /tmp/cwmt-mut-XXXXXX)
OUT=$(mktemp -d /tmp/cwmt-out-XXXXXX)
trap 'rm -rf "$SCR" "$OUT"' EXIT
git -C /repo archive HEAD | tar -x -C "$SCR"
# git archive stamps every file with the commit time; cargo's freshness check is mtime based and
# the target dirs are shared between invocations, so make the sources newer than any artefact
# and drop this package's old artefacts
find "$SCR" -type f -exec touch {} +
( cd "$SCR" && CARGO_TARGET_DIR=/tmp/cwmt-base-target$LANE cargo clean -p cw-multi-test --offline >/dev/null 2>&1; CARGO_TARGET_DIR=/tmp/cwmt-mc-target$LANE cargo clean -p cw-multi-test --release --offline >/dev/null 2>&1 )
if [ -n "$DEMO" ]; then
  # the demonstration must pass on the unchanged tree ...
  cp "$DEMO" "$SCR/tests/seed_demo.rs"
  if ( cd "$SCR" && CARGO_TARGET_DIR=/tmp/cwmt-base-target$LANE cargo test --offline $DEMOFEAT --test seed_demo >"$OUT/demo0.log" 2>&1 ); then echo "$NAME demo without change: PASS"; else echo "$NAME demo without change: FAIL (unexpected)"; tail -5 "$OUT/demo0.log"; fi
  rm "$SCR/tests/seed_demo.rs"
fi
if ! patch -s -p1 -d "$SCR" < "$PATCH"; then echo "$NAME PATCH-FAILED"; exit 3; fi
sleep 1; find "$SCR/src" -type f -exec touch {} +
if [ -n "$DEMO" ]; then
  # ... and fail with the change
  cp "$DEMO" "$SCR/tests/seed_demo.rs"
  if ( cd "$SCR" && CARGO_TARGET_DIR=/tmp/cwmt-base-target$LANE cargo test --offline $DEMOFEAT --test seed_demo >"$OUT/demo1.log" 2>&1 ); then echo "$NAME demo with change: PASS (unexpected)"; else echo "$NAME demo with change: FAIL as expected ($(grep -E '^test result' "$OUT/demo1.log" | head -1))"; fi
  rm "$SCR/tests/seed_demo.rs"
fi
if [ $BASELINE = 1 ]; then
  if ( cd "$SCR" && CARGO_TARGET_DIR=/tmp/cwmt-base-target$LANE cargo test --workspace --no-fail-fast --offline >"$OUT/base.log" 2>&1 ); then
    echo "$NAME baseline: PASS ($(grep -c '^test .* ok$' "$OUT/base.log") tests ok)"
  else
    echo "$NAME baseline: FAIL"; grep -E "^test .* FAILED|^error" "$OUT/base.log" | head
  fi
fi
# snapshot of the harness sources, so that /verif/mc can be edited while this runs
# (taken from the committed HEAD of /verif, never from the working tree)
git -C /verif archive HEAD mc | tar -x -C "$OUT"
sed -i 's#env!("CARGO_MANIFEST_DIR"), "/.."#"/verif"#' "$OUT/mc/src/common.rs"
if ! ( cd "$OUT/mc" && CARGO_TARGET_DIR=/tmp/cwmt-mc-target$LANE cargo build --release --offline --config "paths=[\"$SCR\"]" >"$OUT/build.log" 2>&1 ); then
  echo "$NAME BUILD-FAILED"; grep -E "^error" -A8 "$OUT/build.log" | head -30; exit 3
fi
mkdir -p "$OUT/root"; cp /verif/known_findings.json "$OUT/root/"
for ID in "$@"; do
  VERIF_ROOT="$OUT/root" timeout 900 /tmp/cwmt-mc-target$LANE/release/mc "$ID" quick >"$OUT/$ID.log" 2>&1
  rc=$?
  case $rc in
    1) echo "$NAME $ID DETECTED ($(grep -c '^VIOLATION' "$OUT/$ID.log") classes: $(grep 'class=' "$OUT/$ID.log" | sed 's/.*class=\([^ ]*\).*/\1/' | head -4 | tr '\n' ' '))";;
    0) echo "$NAME $ID MISSED";;
    *) echo "$NAME $ID MACHINERY rc=$rc"; tail -3 "$OUT/$ID.log";;
  esac
done
